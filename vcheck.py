#!/usr/bin/env python3
"""vcheck.py <property-id> --tier quick|thorough [--replay file] [--only query-name] [--keep]

Driver (E5 in DESIGN.md): harness + /repo headers -> LLVM IR (clang++-14 -O1) -> C step machines (engine/ir2c.py)
-> cbmc + SAT solver.  Every query has a VP_WITNESS twin that must be *violated* (reachability / non-vacuity).
Exit 0: every query verified and every witness reachable.  Exit 1: a property violation (VIOLATION line printed).
Exit 2: the check itself is broken (encoder refused, time-out, witness unreachable, solver error)."""
import sys, threading, os, json, time, subprocess, tempfile, shutil, hashlib, itertools, argparse, resource, signal, re
import concurrent.futures as cf

ROOT = os.path.dirname(os.path.abspath(__file__))
sys.path.insert(0, os.path.join(ROOT, 'engine'))
import ir2c
from irparse import Unsupported

REPO = os.environ.get('VERIF_REPO', '/repo')
CLANG = 'clang++-14'
CLANG_FLAGS = ['-std=c++17', '-O1', '-fno-vectorize', '-fno-slp-vectorize', '-fno-unroll-loops', '-S', '-emit-llvm',
               '-I', REPO, '-I', os.path.join(ROOT, 'harness'), '-Wno-everything']
NCPU = os.cpu_count() or 4
STRICT_REAL = True    # a VIOLATION is printed only if the counter-example also fails on the real compiled code (when that replay is available)


MEM_BUDGET_GB = int(os.environ.get('VP_MEM_BUDGET_GB', '44'))
MEM_UNWIND = ','.join(f'vp_mem{f}.{k}:{n}' for f, n in (('move_b', 34), ('move_w', 10), ('move_q', 10), ('move_p', 10), ('set_b', 34)) for k in (0, 1) if not (f == 'set_b' and k == 1))


HB_UNWIND = ','.join(f'{f}.{k}:14' for f in ('vp_hb_init', 'vp_hb_fork', 'vp_hb_joinall', 'vp_ho_slot', 'vp_hb_acquire_from', 'vp_hb_release_to', 'vp_hs_slot', 'vp_hb_na_write', 'vp_hb_astore_i', 'vp_hb_aload', 'vp_hb_rmw') for k in (0, 1, 2))


class Query:
    def __init__(s, name, cpp, q, defines=(), unwind=3, unwindset=None, timeout=600, solvers=('kissat', 'minisat'), checks=None,
                 witness=True, expect_witness=True, note='', mem_gb=24, extra_flags=(), must_cover=0, tv=True, cflags=(), object_bits=10, tv_order=None, est_gb=3):
        s.name, s.cpp, s.q, s.defines = name, cpp, q, tuple(defines)
        s.unwind, s.unwindset, s.timeout, s.solvers = unwind, unwindset, timeout, tuple(solvers)
        s.est_gb = est_gb
        s.checks, s.witness, s.note, s.mem_gb = checks, witness, note, mem_gb
        s.extra_flags = tuple(extra_flags); s.must_cover = must_cover; s.tv = tv; s.cflags = tuple(cflags); s.object_bits = object_bits; s.tv_order = tv_order


def sh(cmd, **kw):
    return subprocess.run(cmd, stdout=subprocess.PIPE, stderr=subprocess.STDOUT, text=True, **kw)


_ll_cache = {}


def compile_ll(work, cpp, defines, cflags=()):
    key = (cpp, tuple(defines), tuple(cflags))
    if key in _ll_cache: return _ll_cache[key]
    h = hashlib.sha1(repr(key).encode()).hexdigest()[:12]
    out = os.path.join(work, f"{os.path.basename(cpp)[:-4]}_{h}.ll")
    cmd = [CLANG] + list(cflags) + CLANG_FLAGS + [f"-D{d}" for d in defines] + [os.path.join(ROOT, 'harness', cpp), '-o', out]
    r = sh(cmd)
    if r.returncode != 0:
        raise RuntimeError("harness does not compile against /repo:\n" + r.stdout[-3000:])
    _ll_cache[key] = out
    return out


def solver_flags(solver):
    if solver == 'kissat': return ['--external-sat-solver', 'kissat']
    if solver == 'cadical': return ['--sat-solver', 'cadical']
    if solver == 'minisat': return []
    raise ValueError(solver)


def limit(mem_gb):
    def f():
        os.setsid()
        resource.setrlimit(resource.RLIMIT_AS, (mem_gb << 30, mem_gb << 30))
    return f


def run_cbmc(cfile, flags, timeout, mem_gb, tmpdir, register=None):
    env = dict(os.environ); env['TMPDIR'] = tmpdir
    t0 = time.time()
    cmd = ['/usr/bin/time', '-f', 'VP_RSS_KB=%M', 'cbmc', cfile, '-I', os.path.join(ROOT, 'engine'), '--json-ui'] + flags
    p = subprocess.Popen(cmd, stdout=subprocess.PIPE, stderr=subprocess.PIPE, text=True, env=env, preexec_fn=limit(mem_gb))
    if register: register(p)
    try:
        out, err = p.communicate(timeout=timeout)
        to = False
    except subprocess.TimeoutExpired:
        try: os.killpg(p.pid, signal.SIGKILL)
        except ProcessLookupError: pass
        out, err = p.communicate()
        to = True
    dt = time.time() - t0
    rss = 0
    m = re.search(r'VP_RSS_KB=(\d+)', err or '')
    if m: rss = int(m.group(1))
    return dict(rc=p.returncode, out=out, err=err, timeout=to, seconds=round(dt, 2), rss_mb=rss // 1024, cmd=' '.join(cmd[3:]))


def parse_cbmc(out):
    """-> dict(status, failed=[{property, description, trace}], stats)"""
    res = dict(status='error', failed=[], nprops=0, messages=[], vars=None, clauses=None)
    try:
        j = json.loads(out)
    except Exception:
        # cbmc may have been killed mid-output: try to salvage
        res['messages'].append('unparsable json')
        return res
    for e in j:
        if not isinstance(e, dict): continue
        if 'messageText' in e:
            t = e['messageText']
            m = re.match(r'(\d+) variables, (\d+) clauses', t)
            if m: res['vars'], res['clauses'] = int(m.group(1)), int(m.group(2))
            if e.get('messageType') == 'ERROR': res['messages'].append('ERROR: ' + t)
        if 'result' in e:
            res['nprops'] = len(e['result'])
            for r in e['result']:
                if r.get('status') == 'FAILURE':
                    res['failed'].append(dict(property=r.get('property'), description=r.get('description'), trace=r.get('trace')))
        if e.get('status') == 'failed' and 'property' in e:      # --stop-on-fail format
            res['failed'].append(dict(property=e.get('property'), description=e.get('description'), trace=e.get('trace')))
        if 'cProverStatus' in e:
            res['status'] = e['cProverStatus']
    return res


def extract_schedule(trace, tnames):
    """contexts [thread, budget granted, visible ops executed] and harness nondet choices from a cbmc json trace"""
    sched = []; nd = []; draws = []
    if not trace: return dict(contexts=[], nondet=[], draws=[])
    for st in trace:
        if st.get('stepType') != 'assignment': continue
        lhs = st.get('lhs', '')
        val = st.get('value', {})
        data = val.get('data') if isinstance(val, dict) else None
        fn = (st.get('sourceLocation') or {}).get('function', '')
        if lhs == 'vp_nd_last' and fn in ('vp_nd_int', 'vp_nd_uint', 'vp_nd_uchar'):
            try: draws.append(int(str(data).rstrip('ulL')))
            except Exception: pass
            continue
        m = re.fullmatch(r'(\w+)_budget', lhs)
        if m and m.group(1) in tnames:
            try: v = int(str(data).rstrip('ul'))
            except Exception: continue
            if fn == 'main': sched.append([m.group(1), v, 0])
            elif sched and sched[-1][0] == m.group(1): sched[-1][2] += 1
        elif fn in ('vp_nondet_int', 'vp_nondet_bool', 'vp_nondet_range', 'vp_timeout_fires', 'vp_cv_can_wake', 'vp_cv_notify_one', 'vp_clock_now') and lhs.startswith('return_value'):
            nd.append([fn, str(data)])
    return dict(contexts=sched, nondet=nd[:64], draws=draws)


def native_replay(cfile, draws, workdir, flags=(), expect=None):
    """Replay a counter-example on the native build of the same generated C (gcc + ASan/UBSan, real semantics instead of cbmc's
    models of the C library): returns (reproduced, detail).  A counter-example that does not reproduce is an encoding
    divergence (exit 2), never a VIOLATION."""
    exe = cfile[:-2] + '.native'
    cmd = ['gcc', '-DVP_NATIVE', '-g', '-O0', '-w', '-fsanitize=address,undefined', '-fno-sanitize-recover=undefined', '-I', os.path.join(ROOT, 'engine')] + list(flags) + \
          [cfile, os.path.join(ROOT, 'engine', 'vp_native.c'), '-o', exe]
    r = sh(cmd)
    if r.returncode != 0: return None, 'native build failed: ' + r.stdout[-400:]
    env = dict(os.environ, VP_NONDET=','.join(str(d) for d in draws), ASAN_OPTIONS='detect_leaks=0:abort_on_error=0')
    try:
        p = subprocess.run([exe], stdout=subprocess.PIPE, stderr=subprocess.PIPE, text=True, env=env, timeout=120)
    except subprocess.TimeoutExpired:
        return None, 'native replay timed out'
    out = p.stdout + p.stderr
    fails = re.findall(r'ASSERT-FAIL id=(-?\d+) (.*)', p.stdout)
    san = re.findall(r'(ERROR: AddressSanitizer: [\w-]+|runtime error: [^\n]{0,80}|SEGV)', p.stderr)
    if fails or san:
        detail = '; '.join([f'id={i} {t}'[:90] for i, t in fails[:3]] + san[:2])
        if expect:
            m = re.match(r'vp_assert id=(-?\d+)', expect)
            if m: same = any(i == m.group(1) for i, _ in fails)
            elif any(k in expect for k in ('dereference failure', 'double free', 'pointer relation', 'free argument', 'pointer arithmetic')): same = bool(san)
            else: same = any(expect[:60] in t for _, t in fails)
            # the concrete run can die of a memory error (ASan) before it reaches the assertion the solver reported for the same schedule:
            # both are failures of this run (cbmc --stop-on-fail names one violated property), so this is a reproduction
            if not same and any('AddressSanitizer' in x or x == 'SEGV' for x in san) and not fails:
                return True, detail + ' (memory error before the assertion the solver reported)'
            if not same: return False, 'native run fails differently: ' + detail
        return True, detail
    if 'ASSUME-FAIL' in p.stdout: return False, 'native run left the assumed region (assume failed)'
    return False, 'native run of the generated C finished without any failure'


def translation_validate(Q, cfile, work, k, seed):
    """E7 (DESIGN.md): run K concrete input vectors through (a) the native build of the generated C under the greedy schedule and
    (b) the harness compiled by g++ against the real /repo headers, thread entries run to completion in the same order; the
    observation logs (assertion ids, ghost state, coverage bits, vp_log records) must be identical."""
    import random, copy
    rnd = random.Random(seed * 7919 + sum(map(ord, Q.name)) % 1000)
    if Q.tv_order is not None:
        # a round order under which no thread has to wait (e.g. arrivers before waiters), used for this validation only
        q2 = copy.deepcopy(Q.q); q2['order'] = list(Q.tv_order)
        ll = compile_ll(work, Q.cpp, Q.defines, Q.cflags)
        text, _ = ir2c.translate(open(ll).read(), q2)
        cfile = cfile[:-2] + '.tv.c'; open(cfile, 'w').write(text)
        Q = copy.copy(Q); Q.q = q2
    gen = cfile[:-2] + '.tvgen'; real = cfile[:-2] + '.tvreal'
    r = sh(['gcc', '-DVP_NATIVE', '-DVP_GREEDY', '-O0', '-w', '-I', os.path.join(ROOT, 'engine')] + list(Q.extra_flags) + [cfile, os.path.join(ROOT, 'engine', 'vp_native.c'), '-o', gen])
    if r.returncode != 0: return dict(error='generated C does not build natively: ' + r.stdout[-300:])
    r = sh(['g++', '-std=c++17', '-O1', '-w'] + list(Q.cflags) + ['-I', REPO, '-I', os.path.join(ROOT, 'harness')] + [f'-D{d}' for d in Q.defines] +
           [os.path.join(ROOT, 'harness', Q.cpp), os.path.join(ROOT, 'engine', 'vp_native_real.cpp'), '-rdynamic', '-ldl', '-pthread', '-o', real])
    if r.returncode != 0: return dict(error='harness does not build natively: ' + r.stdout[-300:])
    threads = Q.q.get('threads', []); order = Q.q.get('order', list(range(len(threads))))
    args = [Q.q.get('setup') or '-'] + [f'{fn}:0' for fn in Q.q.get('seq', [])] + [f'{threads[t][1]}:{t + 1}' for t in order] + [Q.q.get('final') or '-']
    def parse(out):
        keep = []
        for ln in out.split('\n'):
            m = re.match(r'ASSERT-FAIL id=(-?\d+)', ln)
            if m and int(m.group(1)) >= 0: keep.append('ASSERT ' + m.group(1))
            elif ln.startswith(('GHOST ', 'COVER ', 'LOG ')): keep.append(ln.strip())
        return sorted(keep)
    res = dict(vectors=0, validated=0, skipped_blocking=0, skipped_assume=0, mismatches=[])
    for i in range(k):
        vec = [rnd.choice([0, 1, 2, 0, 1, 2, 3, rnd.randint(0, 4)]) for _ in range(24)]
        env = dict(os.environ, VP_NONDET=','.join(map(str, vec)), VP_TV='1')
        res['vectors'] += 1
        try:
            g = subprocess.run([gen], stdout=subprocess.PIPE, stderr=subprocess.STDOUT, text=True, env=env, timeout=20)
        except subprocess.TimeoutExpired:
            res['skipped_blocking'] += 1; continue
        if 'ASSUME-FAIL' in g.stdout: res['skipped_assume'] += 1; continue
        if re.search(r'DONE \w+ 0', g.stdout) or re.search(r'BLOCKS \w+ [1-9]', g.stdout) or 'self-deadlock' in g.stdout:
            # a thread had to wait under the greedy schedule: run-to-completion of the real threads is impossible for this program
            res['skipped_blocking'] += k - i; res['vectors'] += k - i - 1; break
        try:
            h = subprocess.run([real] + args, stdout=subprocess.PIPE, stderr=subprocess.STDOUT, text=True, env=env, timeout=20)
        except subprocess.TimeoutExpired:
            res['skipped_blocking'] += 1; continue
        if 'ASSUME-FAIL' in h.stdout: res['skipped_assume'] += 1; continue
        a, b = parse(g.stdout), parse(h.stdout)
        if a == b and h.returncode == 0: res['validated'] += 1
        else: res['mismatches'].append(dict(vector=vec[:10], generated=a[:12], real=b[:12], real_rc=h.returncode))
    return res


def real_replay(Q, ll, cfile, draws, workdir):
    """E6: replay the counter-example on the REAL compiled code.  The schedule is taken from the native run of the generated C
    (events per context), the harness IR is instrumented (engine/irinstr.py), compiled with clang -O0 + AddressSanitizer and
    linked with the cooperative runtime engine/vp_rt.c.  Returns (True/False/None, detail); None = replay infrastructure failed."""
    try:
        import irinstr
        gen = cfile[:-2] + '.rgen'
        r = sh(['gcc', '-DVP_NATIVE', '-O0', '-w', '-I', os.path.join(ROOT, 'engine')] + list(Q.extra_flags) + [cfile, os.path.join(ROOT, 'engine', 'vp_native.c'), '-o', gen])
        if r.returncode != 0: return None, 'generated C does not build: ' + r.stdout[-200:]
        env = dict(os.environ, VP_NONDET=','.join(str(d) for d in draws))
        g = subprocess.run([gen], stdout=subprocess.PIPE, stderr=subprocess.STDOUT, text=True, env=env, timeout=120)
        items = []; open_ctx = None
        for ln in g.stdout.split('\n'):
            f = ln.split()
            if f[:1] == ['BEGIN'] and len(f) >= 2: open_ctx = f[1]
            elif f[:1] == ['CTX'] and len(f) >= 8: items.append(f"C {f[1]} {f[3]} {f[4]} {f[7]}"); open_ctx = None
            elif f[:1] == ['SKIP'] and len(f) >= 3: items.append(f"S {f[1]} {f[2]}")
        if open_ctx is not None:
            # the generated-C run died inside this context (double free, segfault): the real run gets the rest of it unbounded
            items.append(f"C {open_ctx} 100000000 100000 1")
        inst = cfile[:-2] + '.inst.ll'
        open(inst, 'w').write(irinstr.instrument(open(ll).read()))
        obj = cfile[:-2] + '.inst.o'
        r = sh(['clang++-14', '-O0', '-g0', '-fsanitize=address', '-w', '-c', inst, '-o', obj])
        if r.returncode != 0: return None, 'instrumented IR does not compile: ' + r.stdout[-300:]
        rt = os.path.join(workdir, 'vp_rt.o')
        if not os.path.exists(rt):
            r = sh(['gcc', '-O0', '-g', '-w', '-fsanitize=address', '-I', os.path.join(ROOT, 'engine')] + list(Q.extra_flags) + ['-c', os.path.join(ROOT, 'engine', 'vp_rt.c'), '-o', rt])
            if r.returncode != 0: return None, 'runtime does not build: ' + r.stdout[-300:]
        exe = cfile[:-2] + '.real'
        r = sh(['clang++-14', '-fsanitize=address', obj, rt, '-o', exe, '-rdynamic', '-ldl', '-lpthread'])
        if r.returncode != 0: return None, 'link failed: ' + r.stdout[-300:]
        threads = Q.q.get('threads', [])
        args = [Q.q.get('setup') or '-'] + [f'{fn}:{t + 1}' for t, (tn, fn) in enumerate(threads)] + [Q.q.get('final') or '-']
        if Q.q.get('seq'): return None, 'sequential entry points are replayed by the translation-validation driver, not by the scheduler runtime'
        env = dict(os.environ, VP_NONDET=','.join(str(d) for d in draws), VP_SCHEDULE=';'.join(items), VP_SPUR=str(Q.q.get('opts', {}).get('spur', 0)),
                   ASAN_OPTIONS='detect_leaks=0:abort_on_error=0')
        p = subprocess.run([exe] + args, stdout=subprocess.PIPE, stderr=subprocess.PIPE, text=True, env=env, timeout=120)
        fails = re.findall(r'ASSERT-FAIL id=(-?\d+) (.*)', p.stdout)
        san = re.findall(r'(ERROR: AddressSanitizer: [\w-]+|SEGV)', p.stderr)
        div = re.findall(r'RT-DIVERGENCE (.*)', p.stdout)
        if fails or san: return True, '; '.join([f'id={i} {t}'[:80] for i, t in fails[:3]] + san[:2])
        if div: return False, 'real-code run left the recorded schedule: ' + div[0]
        return False, 'real-code run finished without failure: ' + (p.stdout.strip().split('\n')[-1] if p.stdout.strip() else p.stderr[-200:])
    except subprocess.TimeoutExpired:
        return None, 'real-code replay timed out'
    except Exception as ex:
        return None, f'real-code replay error: {type(ex).__name__}: {ex}'


class Runner:
    def __init__(s, pid, tier, keep=False, only=None):
        s.pid, s.tier, s.keep, s.only = pid, tier, keep, only
        s.work = tempfile.mkdtemp(prefix=f"vp_{pid}_")
        s.results = []
        s.t0 = time.time()
        s.decided = set(); s.procs = {}
        s.mem_cv = threading.Condition(); s.mem_used = 0

    def cleanup(s):
        if not s.keep: shutil.rmtree(s.work, ignore_errors=True)

    def prepare(s, Q):
        """translate query -> C file; returns (cfile, report)"""
        ll = compile_ll(s.work, Q.cpp, Q.defines, Q.cflags)
        text, rep = ir2c.translate(open(ll).read(), Q.q)
        cfile = os.path.join(s.work, Q.name + '.c')
        open(cfile, 'w').write(text)
        return cfile, rep

    def job(s, Q, cfile, kind, solver):
        flags = ['--unwind', str(Q.unwind)]
        uws = MEM_UNWIND + ((',' + Q.unwindset) if Q.unwindset else '') + ((',' + HB_UNWIND) if Q.q.get('opts', {}).get('hb') else '')
        flags += ['--unwindset', uws]
        flags += ['--drop-unused-functions', '--object-bits', str(Q.object_bits)] + solver_flags(solver) + list(Q.extra_flags)
        if kind != 'verify': flags += ['--slice-formula']     # verify runs keep every nondeterministic draw in the trace (needed for the native replay)
        if kind == 'verify':
            flags += ['--unwinding-assertions', '--trace', '--stop-on-fail']
            flags += ['--no-standard-checks']
            if Q.checks == 'pointer': flags += ['--pointer-check']
            elif Q.checks == 'all': flags.remove('--no-standard-checks')
        elif kind == 'witness_sym':
            flags += ['-DVP_WITNESS', '-DVP_WITNESS_SYMBOLIC', '--no-standard-checks', '--trace']
        elif kind == 'cover':
            flags += ['-DVP_WITNESS', f'-DVP_MUST_COVER={Q.must_cover}u', '--no-standard-checks', '--trace']
        else:
            flags += ['-DVP_WITNESS', '--no-standard-checks', '--trace']
        tmpdir = tempfile.mkdtemp(prefix='t_', dir=s.work)
        key = (Q.name, kind)
        if key in s.decided:
            return dict(rc=None, err='', timeout=False, seconds=0.0, rss_mb=0, cmd='', kind=kind, solver=solver, query=Q.name,
                        parsed=dict(status='cancelled', failed=[], nprops=0, messages=[], vars=None, clauses=None))
        def reg(p): s.procs.setdefault(key, []).append(p)
        # memory governor: the estimated footprints (cbmc + external SAT solver) of the jobs running at once stay below MEM_BUDGET_GB
        with s.mem_cv:
            while s.mem_used and s.mem_used + Q.est_gb > MEM_BUDGET_GB: s.mem_cv.wait()
            s.mem_used += Q.est_gb
        try:
            if key in s.decided:
                return dict(rc=None, err='', timeout=False, seconds=0.0, rss_mb=0, cmd='', kind=kind, solver=solver, query=Q.name,
                            parsed=dict(status='cancelled', failed=[], nprops=0, messages=[], vars=None, clauses=None))
            r = run_cbmc(cfile, flags, Q.timeout, Q.mem_gb, tmpdir, register=reg)
        finally:
            with s.mem_cv:
                s.mem_used -= Q.est_gb; s.mem_cv.notify_all()
        shutil.rmtree(tmpdir, ignore_errors=True)
        r['kind'] = kind; r['solver'] = solver; r['query'] = Q.name
        if key in s.decided and r['rc'] not in (0, 10):
            r['parsed'] = dict(status='cancelled', failed=[], nprops=0, messages=[], vars=None, clauses=None)
        else:
            r['parsed'] = parse_cbmc(r['out']) if not r['timeout'] else dict(status='timeout', failed=[], nprops=0, messages=[], vars=None, clauses=None)
        del r['out']
        # portfolio: the first definite verdict of a query decides it; the other back ends are stopped
        if r['parsed']['status'] in ('success', 'failure') and not any(m.startswith('ERROR') for m in r['parsed']['messages']):
            if key not in s.decided:
                s.decided.add(key)
                for p in s.procs.get(key, []):
                    if p.poll() is None:
                        try: os.killpg(p.pid, signal.SIGKILL)
                        except ProcessLookupError: pass
        return r

    def run(s, queries, max_workers=None):
        if s.only: queries = [q for q in queries if any(o in q.name for o in s.only.split(','))]
        prepared = []
        for Q in queries:
            try:
                cfile, rep = s.prepare(Q)
                prepared.append((Q, cfile, rep, None))
            except (Unsupported, RuntimeError, KeyError) as e:
                prepared.append((Q, None, None, f"{type(e).__name__}: {e}"))
        jobs = []
        with cf.ThreadPoolExecutor(max_workers=max_workers or NCPU) as ex:
            futs = {}
            for (Q, cfile, rep, err) in prepared:
                if err: continue
                for solver in Q.solvers:
                    futs[ex.submit(s.job, Q, cfile, 'verify', solver)] = (Q, 'verify', solver)
                if Q.witness:
                    futs[ex.submit(s.job, Q, cfile, 'witness', Q.solvers[0])] = (Q, 'witness', Q.solvers[0])
                if Q.must_cover:
                    futs[ex.submit(s.job, Q, cfile, 'cover', Q.solvers[0])] = (Q, 'cover', Q.solvers[0])
            done = {}
            pending = set(futs)
            while pending:
                fin, pending = cf.wait(pending, return_when=cf.FIRST_COMPLETED)
                for f in fin:
                    Q, kind, solver = futs[f]
                    r = f.result()
                    done.setdefault(Q.name, []).append(r)
                    if kind == 'witness' and r['parsed']['status'] == 'success':
                        # greedy schedule cannot finish: ask the solver for any schedule
                        cfile = [c for (q_, c, _, _) in prepared if q_ is Q][0]
                        nf = ex.submit(s.job, Q, cfile, 'witness_sym', solver)
                        futs[nf] = (Q, 'witness_sym', solver); pending.add(nf)
        out = []
        for (Q, cfile, rep, err) in prepared:
            out.append(dict(query=Q, cfile=cfile, report=rep, error=err, runs=done.get(Q.name, [])))
        return out


def classify(entry):
    """-> (verdict, detail)   verdict in: verified, violated, broken"""
    Q = entry['query']
    if entry['error']: return 'broken', 'encoder: ' + entry['error']
    ver = [r for r in entry['runs'] if r['kind'] == 'verify']
    wit = [r for r in entry['runs'] if r['kind'] == 'witness_sym'] or [r for r in entry['runs'] if r['kind'] == 'witness']
    viol = None
    statuses = set()
    for r in ver:
        p = r['parsed']
        if p['status'] == 'cancelled': continue
        if p['messages'] and any(m.startswith('ERROR') for m in p['messages']): statuses.add('error'); continue
        statuses.add(p['status'])
        if p['status'] == 'failure' and p['failed']: viol = r
    if viol is not None:
        if all('unwinding assertion' in (f['description'] or '') for f in viol['parsed']['failed']):
            return 'broken', 'unwinding bound too small: ' + '; '.join((f['description'] or '') + ' ' + str(f['property']) for f in viol['parsed']['failed'])
        return 'violated', viol
    if 'success' in statuses and not (statuses - {'success', 'timeout', 'error'}): statuses = {'success'}   # a slower back end timing out / hitting its memory cap does not matter: same formula, one complete verdict
    if statuses != {'success'}: return 'broken', f"verify runs: {sorted(statuses)} " + '; '.join((r['parsed']['messages'] or [''])[0] for r in ver)[:300]
    if Q.witness:
        if not wit: return 'broken', 'witness did not run'
        w = wit[0]['parsed']
        if w['status'] == 'success': return 'broken', 'witness unreachable: the harness cannot finish inside the bound (vacuous pass)'
        if w['status'] != 'failure': return 'broken', 'witness run: ' + w['status']
        if not any('witness' in (f['description'] or '') for f in w['failed']): return 'broken', 'witness failed for another reason'
    cov = [r for r in entry['runs'] if r['kind'] == 'cover']
    if Q.must_cover:
        if not cov: return 'broken', 'cover query did not run'
        c = cov[0]['parsed']
        if c['status'] == 'success':
            # all threads can finish (witness) but the required state is unreachable for every schedule: property violation
            return 'violated', dict(cov[0], unreachable=True)
        if c['status'] != 'failure': return 'broken', 'cover run: ' + c['status']
    return 'verified', None


def load_known():
    path = os.path.join(ROOT, 'known_findings.txt')
    out = []
    if os.path.exists(path):
        for ln in open(path):
            ln = ln.strip()
            if ln.startswith('finding:'):
                m = re.match(r'finding:\s+property=(\S+)\s+key=(\S+)\s+(.*)$', ln)
                if m: out.append(dict(pid=m.group(1), key=m.group(2), text=m.group(3)))
    return out


def main():
    ap = argparse.ArgumentParser()
    ap.add_argument('pid')
    ap.add_argument('--tier', default=os.environ.get('VERIF_TIER', 'quick'))
    ap.add_argument('--only'); ap.add_argument('--keep', action='store_true')
    ap.add_argument('--replay')
    ap.add_argument('--list', action='store_true')
    a = ap.parse_args()
    import specs
    seed = int(os.environ.get('VERIF_SEED', '0') or 0)
    if a.replay:
        import vreplay
        sys.exit(vreplay.replay(a.pid, a.replay))
    spec = specs.SPECS[a.pid]
    queries = spec['queries'](a.tier)
    if a.tier == 'thorough':
        # the thorough tier is a superset: every scenario of the quick tier that has no namesake here is run as well
        have = {q.name for q in queries}
        queries = queries + [q for q in spec['queries']('quick') if q.name not in have]
    if a.list:
        for q in queries: print(q.name, q.cpp, q.defines, q.q.get('rounds'), q.q.get('order'))
        return
    R = Runner(a.pid, a.tier, keep=a.keep, only=a.only)
    t0 = time.time()
    try:
        res = R.run(queries)
        known = [k for k in load_known() if k['pid'] == a.pid]
        violations = 0; broken = 0; verified = 0; nontrivial = 0
        tv_done = {}; TV_K = 6 if a.tier == 'quick' else 16; TV_MAX = 6 if a.tier == 'quick' else 40
        evq = []; samples = []; funcs = []; assumptions = list(spec.get('assumptions', []))
        os.makedirs(os.path.join(ROOT, 'replays', a.pid), exist_ok=True)
        for e in res:
            Q = e['query']
            verdict, detail = classify(e)
            tn = [t[0] for t in Q.q.get('threads', [])]
            rec = dict(name=Q.name, harness=Q.cpp, defines=list(Q.defines), verdict=verdict, note=Q.note,
                       bounds=dict(threads=len(tn), rounds=Q.q.get('rounds'), order=Q.q.get('order'), unwind=Q.unwind,
                                   unwindset=Q.unwindset, max_budget=Q.q.get('maxb', 255), spurious_wakeups=Q.q.get('opts', {}).get('spur', 0)),
                       runs=[dict(kind=r['kind'], solver=r['solver'], status=r['parsed']['status'], seconds=r['seconds'], rss_mb=r['rss_mb'],
                                  variables=r['parsed']['vars'], clauses=r['parsed']['clauses'], properties=r['parsed']['nprops']) for r in e['runs']])
            if e['report']:
                rec['visible_ops'] = {t: v['visible_ops'] for t, v in e['report']['threads'].items()}
                for f in e['report']['functions_encoded']:
                    if f not in funcs: funcs.append(f)
            if verdict == 'verified' and Q.tv and not Q.q.get('opts', {}).get('hb'):
                tvkey = (Q.cpp, Q.defines, Q.q.get('setup'), tuple(map(tuple, Q.q.get('threads', []))), tuple(Q.q.get('order', [])), Q.q.get('final'), tuple(Q.q.get('seq', [])))
                if tvkey not in tv_done and len(tv_done) < TV_MAX:
                    tv_done[tvkey] = translation_validate(Q, e['cfile'], R.work, TV_K, seed)
                tvr = tv_done.get(tvkey)
                if tvr is not None:
                    rec['translation_validation'] = tvr
                    if tvr.get('mismatches'):
                        verdict = 'broken'; detail = 'TRANSLATION-MISMATCH: generated C and the real code disagree on a concrete vector: ' + json.dumps(tvr['mismatches'][0])[:400]
                        rec['verdict'] = 'broken'
            if verdict == 'verified':
                verified += 1
                wit = [r for r in e['runs'] if r['kind'] == 'witness_sym'] or [r for r in e['runs'] if r['kind'] == 'witness']
                if wit:
                    nontrivial += 1
                    tr = None
                    for f in wit[0]['parsed']['failed']:
                        if 'witness' in (f['description'] or ''): tr = f['trace']
                    sc = extract_schedule(tr, tn)
                    if len(samples) < 6: samples.append(dict(query=Q.name, witness_schedule=sc['contexts'], nondet=sc['nondet'][:16]))
                elif not Q.witness:
                    nontrivial += 1
            elif verdict == 'violated':
                r = detail
                rep_note = ''
                if not r.get('unreachable'):
                    f0_ = r['parsed']['failed'][0]
                    sc_ = extract_schedule(f0_['trace'], tn)
                    ok_, why_ = native_replay(e['cfile'], sc_['draws'], R.work, Q.extra_flags, expect=(f0_['description'] or ''))
                    rec['native_replay'] = dict(reproduced=ok_, detail=why_, draws=len(sc_['draws']))
                    if ok_ is not True:
                        broken += 1
                        rec['verdict'] = 'broken'; rec['detail'] = 'ENCODING-DIVERGENCE: solver counter-example does not reproduce on the native build of the generated C: ' + str(why_)
                        print(f"BROKEN query={Q.name}: {rec['detail']} (cbmc said: {(f0_['description'] or '')[:80]})", file=sys.stderr)
                        evq.append(rec); continue
                    rep_note = why_
                    if not Q.q.get('opts', {}).get('hb'):
                        ok2_, why2_ = real_replay(Q, compile_ll(R.work, Q.cpp, Q.defines, Q.cflags), e['cfile'], sc_['draws'], R.work)
                        if ok2_ is False and 'left the recorded schedule' in str(why2_):
                            ok2_ = None; why2_ = 'inconclusive (' + str(why2_) + ')'      # the replay machinery lost the schedule: no statement about the code
                        rec['real_code_replay'] = dict(reproduced=ok2_, detail=why2_)
                        rep_note += f" | real code (instrumented IR of the real headers, clang -O0 + ASan, same schedule): {'REPRODUCED' if ok2_ else ('not reproduced' if ok2_ is False else 'unavailable')}: {why2_}"
                        if ok2_ is False and STRICT_REAL:
                            # the real compiled code followed the whole schedule and did not fail: the encoding (or a model) is wrong, not the code
                            broken += 1
                            rec['verdict'] = 'broken'; rec['detail'] = 'ENCODING-DIVERGENCE: counter-example reproduces on the generated C but not on the real compiled code: ' + str(why2_)
                            print(f"BROKEN query={Q.name}: {rec['detail']} (cbmc said: {(f0_['description'] or '')[:80]})", file=sys.stderr)
                            evq.append(rec); continue
                if r.get('unreachable'):
                    r['parsed']['failed'] = [dict(property='cover', description=f'required state (coverage mask {Q.must_cover}) is unreachable for every schedule inside the bound', trace=None)]
                f0 = r['parsed']['failed'][0]
                sc = extract_schedule(f0['trace'], tn)
                rp = os.path.join(ROOT, 'replays', a.pid, Q.name + '.json')
                json.dump(dict(property=a.pid, query=Q.name, harness=Q.cpp, defines=list(Q.defines), cflags=list(Q.cflags), q=Q.q, unwind=Q.unwind,
                               failed=[dict(property=f['property'], description=f['description']) for f in r['parsed']['failed']],
                               schedule=sc['contexts'], nondet_draws=sc['draws'], solver=r['solver']), open(rp, 'w'), indent=1)
                descs = '; '.join(sorted(set((f['description'] or '')[:90] for f in r['parsed']['failed'])))[:400]
                rec['failed'] = [dict(property=f['property'], description=f['description']) for f in r['parsed']['failed']]
                rec['counterexample_schedule'] = sc['contexts']
                kn = [k for k in known if k['key'] == Q.name or any(k['key'] in (f['description'] or '') for f in r['parsed']['failed'])]
                if kn and all(any(k['key'] == Q.name or k['key'] in (f['description'] or '') for k in kn) for f in r['parsed']['failed']):
                    for k in kn: print(f"KNOWN-FINDING: property={a.pid} {k['text']}")
                    rec['verdict'] = 'known-finding'
                else:
                    violations += 1
                    print(f"VIOLATION property={a.pid} replay={rp}")
                    print(f"  query={Q.name}: {descs}")
                    print(f"  schedule={sc['contexts']}")
                    if rep_note: print(f"  reproduced on the native build of the encoded program (gcc -fsanitize=address,undefined): {rep_note}")
                    samples.append(dict(query=Q.name, counterexample_schedule=sc['contexts'], failed=descs))
            else:
                broken += 1
                print(f"BROKEN query={Q.name}: {detail}", file=sys.stderr)
                rec['detail'] = str(detail)[:500]
            evq.append(rec)
        wall = time.time() - t0
        ev = dict(property_id=a.pid, tier=a.tier if a.tier in ('quick', 'thorough') else 'quick', seed=seed, level='model_checking',
                  coverage=dict(evaluations=sum(len(e['runs']) for e in res), distinct_nontrivial=nontrivial,
                                rule="one evaluation = one cbmc/SAT query over the C encoding regenerated from /repo's headers; a query is counted "
                                     "non-trivial when it verified AND its VP_WITNESS twin (all threads finish, coverage bits set) was shown reachable by the solver; "
                                     "queries differ in harness, wrapper/mutex instantiation, thread mix, round order or bounds",
                                samples=samples or [dict(note='no witness schedules')],
                                traces_validated_against_impl=sum((t.get('validated') or 0) for t in tv_done.values()),
                                translation_validation=dict(programs=len(tv_done), vectors=sum(t.get('vectors', 0) for t in tv_done.values()),
                                                            validated=sum(t.get('validated', 0) for t in tv_done.values()),
                                                            skipped_blocking=sum(t.get('skipped_blocking', 0) for t in tv_done.values()),
                                                            skipped_assume=sum(t.get('skipped_assume', 0) for t in tv_done.values()),
                                                            errors=[t['error'] for t in tv_done.values() if t.get('error')][:3],
                                                            note='greedy (run-to-completion) schedules only; vectors on which a thread would block are skipped'),
                                queries=evq, functions_encoded=funcs, queries_verified=verified, queries_broken=broken,
                                solver_seconds=round(sum(r['seconds'] for e in res for r in e['runs']), 1),
                                technique='LLVM IR of the real headers -> C step machines (sequentialisation) -> cbmc 6.11 bounded symbolic execution -> SAT (kissat/cadical/minisat)',
                                outside_bounds=spec.get('outside', [])),
                  assumptions=assumptions, wall_s=round(wall, 1), violations=violations)
        os.makedirs(os.path.join(ROOT, 'evidence'), exist_ok=True)
        evdir = 'evidence' if not (a.only or os.environ.get('VP_DEV')) else 'evidence_dev'   # partial / development runs never touch the real evidence
        os.makedirs(os.path.join(ROOT, evdir), exist_ok=True)
        json.dump(ev, open(os.path.join(ROOT, evdir, a.pid + '.json'), 'w'), indent=1)
        print(f"{a.pid} tier={a.tier}: {verified} verified, {violations} violated, {broken} broken of {len(res)} queries in {wall:.0f}s")
        if violations: sys.exit(1)
        if broken: sys.exit(2)
        sys.exit(0)
    finally:
        R.cleanup()


if __name__ == '__main__':
    main()
