// C06 (+ deferred_guarded clauses of C02 / C15 / C20): every function passed to modify_detach / modify_async is executed
// exactly once, exclusively, in an order that respects each submitter's own order and real time; nothing is stranded.
#include "gmlc/libguarded/deferred_guarded.hpp"   // <future> resolves to harness/stubstd/future (see DESIGN.md section 4)
#include "vp.h"
struct P2 { int a; int b; };
using DG = gmlc::libguarded::deferred_guarded<P2>;
// ghost layout: G_APPLIED+tag = how often the functor with that tag ran; G_RET+tag = submit call for tag has returned;
enum { G_APPLIED = 0, G_RET = 6, G_SEQ = 12 /* number of functors applied so far */, G_ORDER = 13 /* +tag: position */ };
#ifndef NTHREADS_SUB2
#define NTHREADS_SUB2 1
#endif
extern "C" {
DG* g_d;
void vp_setup() { g_d = new DG(P2{0, 0}); }

VP_INLINE void body(P2& p, int tag, int mustprecede) noexcept
{
    vp_win_enter(0, 1);                               // exclusive: no shared handle alive, no other modification running
    vp_gadd(G_APPLIED + tag, 1);
    vp_gset(G_ORDER + tag, vp_gadd(G_SEQ, 1));
    // real-time order: every submission that had returned before this one began has already been applied
#pragma unroll
    for (int t = 0; t < 6; t++)
        if ((mustprecede >> t) & 1) vp_assert(vp_g(G_APPLIED + t) == 1, 600);
    int a0 = p.a;
    p.a = a0 + 1;
    p.b = p.b + 1;
    vp_assert(a0 + 1 == p.b, 601);
    vp_win_exit(0, 1);
}
VP_INLINE int returned_mask() noexcept
{
    int m = 0;
#pragma unroll
    for (int t = 0; t < 6; t++) if (vp_g(G_RET + t)) m |= 1 << t;
    return m;
}
// one submission with tag 'tag': KIND 0 = modify_detach, 1 = modify_async (future kept in a ghost-checked slot)
#ifndef KIND1
#define KIND1 0
#endif
#ifndef KIND2
#define KIND2 0
#endif
#ifndef NSUB1
#define NSUB1 1
#endif
#ifndef NSUB2
#define NSUB2 1
#endif
std::future<int>* g_fut[4];
VP_INLINE void submit(int kind, int tag)
{
    int m = returned_mask();
    if (kind == 0) {
        g_d->modify_detach([m, tag](P2& p) noexcept { body(p, tag, m); });
    } else {
        g_fut[tag] = new std::future<int>(g_d->modify_async([m, tag](P2& p) noexcept {
            body(p, tag, m);
            return 100 + tag;
        }));
    }
    vp_gset(G_RET + tag, 1);
}
void vp_sub1()
{
    submit(KIND1, 0);
#if NSUB1 >= 2
#ifdef KIND1B
    submit(KIND1B, 1);
#else
    submit(1 - KIND1, 1);
#endif
#endif
    vp_cover(0);
}
void vp_sub2()
{
    submit(KIND2, 2);
#if NSUB2 >= 2
    submit(1 - KIND2, 3);
#endif
    vp_cover(1);
}
// reader: holds a shared handle across switch points; no modification may run meanwhile
void vp_reader()
{
    {
        auto h = g_d->lock_shared();
        vp_win_enter(0, 0);
        int a = h->a;
        int b = h->b;
        vp_assert(a == b, 602);
        vp_point();
        vp_assert(h->a == a && h->b == b, 603);
        vp_win_exit(0, 0);
    }
#ifdef READER_TRY
    {
        auto h = g_d->try_lock_shared();
        if (h) {
            vp_win_enter(0, 0);
            vp_assert(h->a == h->b, 604);
            vp_win_exit(0, 0);
        }
    }
#endif
    vp_cover(2);
}
// sequential scenarios (one thread): the queued path is forced by holding a shared handle in the same thread
void vp_seq1()
{
    {
        auto h1 = g_d->lock_shared();
        vp_win_enter(0, 0);
        submit(0, 0);                                   // try-lock fails: queued
        submit(1, 1);                                   // queued, future pending
        vp_assert(vp_g(G_SEQ) == 0, 620);               // nothing runs while a shared handle is alive
        vp_assert(g_fut[1]->wait_for(std::chrono::seconds(0)) != std::future_status::ready, 621);
        {
            auto h2 = g_d->lock_shared();               // a second reader must not drain either (body() asserts exclusivity)
            vp_assert(h2->a == 0 && h2->b == 0, 622);
        }
        vp_assert(vp_g(G_SEQ) == 0, 623);
        vp_win_exit(0, 0);
    }
    submit(0, 2);                                       // direct path: first applies the two queued ones, in order, then itself
    vp_assert(vp_g(G_SEQ) == 3, 624);
    vp_assert(vp_g(G_ORDER + 0) == 1 && vp_g(G_ORDER + 1) == 2 && vp_g(G_ORDER + 2) == 3, 625);
    vp_cover(0);
}
void vp_seq2()
{
    submit(1, 0);                                       // direct path, future ready at once
    vp_assert(g_fut[0]->wait_for(std::chrono::seconds(0)) == std::future_status::ready, 626);
    {
        auto h1 = g_d->try_lock_shared();
        vp_assert(static_cast<bool>(h1), 627);
        vp_win_enter(0, 0);
        submit(1, 1);                                   // queued
        vp_win_exit(0, 0);
    }
    {
        auto h = g_d->lock_shared();                    // the next lock_shared made while no handle is held applies it
        vp_assert(h->a == 2 && h->b == 2, 628);
    }
    vp_cover(0);
}
// after all submitters returned and no handle is held: the next lock_shared applies everything that was accepted
void vp_final()
{
#ifdef EXPECT
    int expect = EXPECT;
#else
    int expect = NSUB1 + NSUB2 * NTHREADS_SUB2;
#endif
    {
        auto h = g_d->lock_shared();
        vp_assert(h->a == expect && h->b == expect, 610);      // nothing stranded, nothing lost
    }
    int n = 0;
#pragma unroll
    for (int t = 0; t < 4; t++) {
        vp_assert(vp_g(G_APPLIED + t) <= 1, 611);               // at most once
        n += vp_g(G_APPLIED + t);
    }
    vp_assert(n == expect, 612);                                // each exactly once
#if NSUB1 >= 2 && !defined(EXPECT)
    vp_assert(vp_g(G_ORDER + 0) < vp_g(G_ORDER + 1), 613);      // each submitter's own order
#endif
#if NSUB2 >= 2 && !defined(EXPECT)
    vp_assert(vp_g(G_ORDER + 2) < vp_g(G_ORDER + 3), 614);
#endif
    // every modify_async future now holds its function's result
#pragma unroll
    for (int t = 0; t < 4; t++) {
        if (g_fut[t] != nullptr) {
            vp_assert(g_fut[t]->wait_for(std::chrono::seconds(0)) == std::future_status::ready, 616);
            vp_assert(g_fut[t]->get() == 100 + t, 617);
        }
    }
    P2 v = g_d->load();                                         // load() is one atomic read (C15 clause)
    vp_assert(v.a == expect && v.b == expect, 615);
}
}
