// C19: a trip line is one-way, per line, and publishes what preceded it
#include "gmlc/concurrency/TripWire.hpp"
#include "vp.h"
#include <utility>
using namespace gmlc::concurrency;
#if LINEKIND == 2
DECLARE_TRIPLINE()
#elif LINEKIND == 3
DECLARE_INDEXED_TRIPLINES(2)
#endif
enum { G_DTOR_BEGUN = 0, G_DATA = 1 };
extern "C" {
void vp_hb_data_write(int loc) noexcept;   // ghost plain (non-atomic) data: written by the owner before the trigger dies,
void vp_hb_data_read(int loc) noexcept;    // read by a detector that has seen the line tripped (race = assertion, HB monitor)
TriplineType* g_line0;
TriplineType* g_line1;
void vp_setup()
{
#if LINEKIND == 1
    g_line0 = new TriplineType(make_tripline());
    g_line1 = new TriplineType(make_tripline());
#endif
}
VP_INLINE TripWireDetector make_detector(int which)
{
#if LINEKIND == 1
    return TripWireDetector(which == 0 ? *g_line0 : *g_line1);
#elif LINEKIND == 2
    (void)which;
    return TripWireDetector();
#else
    return TripWireDetector(static_cast<unsigned>(which));
#endif
}
// owner: creates a trigger on line 0, moves it around (symbolic), writes data, destroys it
void vp_owner()
{
#ifdef MV
    int mv = MV;
#else
    int mv = vp_nondet_range(0, 3);
#endif
    bool moved_assign = false;
    bool l1_before = false;
    {
#if LINEKIND == 1
        TripWireTrigger t(*g_line0);
#elif LINEKIND == 2
        TripWireTrigger t;
#else
        TripWireTrigger t(0u);
#endif
        if (mv == 1) {
            TripWireTrigger t2(std::move(t));       // duty to trip moves to t2
            vp_gset(G_DATA, 42);
            vp_hb_data_write(0);
            vp_gset(G_DTOR_BEGUN, 1);
            // t2 dies here and trips the line; afterwards the moved-from t dies: must be safe and trip nothing new
        } else if (mv == 2) {
            {
#if LINEKIND == 1
                TripWireTrigger t3(*g_line1);       // trigger on the other line
#elif LINEKIND == 3
                TripWireTrigger t3(1u);
#else
                TripWireTrigger t3;
#endif
                vp_gset(G_DATA, 42);
                vp_hb_data_write(0);
                vp_gset(G_DTOR_BEGUN, 1);
#if LINEKIND != 2
                vp_gset(2, 1);                      // t3 gives up line 1 now: whatever that does to line 1 happens from here on
#endif
                t3 = std::move(t);                  // move-assign: t3 now carries line 0's duty
            }                                       // t3 dies: trips line 0
#if LINEKIND != 2
            l1_before = make_detector(1).isTripped();
            moved_assign = true;
#endif
        } else if (mv == 3) {
            // the moved-from object dies FIRST, while the new owner is still alive: the line must stay untripped
#if LINEKIND == 1
            TripWireTrigger* th = new TripWireTrigger(*g_line1);
#elif LINEKIND == 3
            TripWireTrigger* th = new TripWireTrigger(1u);
#else
            TripWireTrigger* th = nullptr;
#endif
            if (th != nullptr) {
                TripWireTrigger t4(std::move(*th));
                delete th;                          // moved-from: safe, trips nothing
                vp_assert(!make_detector(1).isTripped(), 1906);
                vp_gset(2, 1);
            }                                       // t4 dies: now line 1 trips
            vp_gset(G_DATA, 42);
            vp_hb_data_write(0);
            vp_gset(G_DTOR_BEGUN, 1);
        } else {
            vp_gset(G_DATA, 42);
            vp_hb_data_write(0);
            vp_gset(G_DTOR_BEGUN, 1);
        }
    }                                               // t dies (moved-from in the mv 1 / 2 cases)
    // the moved-from source of a move-assignment was destroyed just now: it must not have tripped anything
    if (moved_assign) vp_assert(make_detector(1).isTripped() == l1_before, 1907);
#ifdef SECOND_TRIGGER
    {
        // line 0 is tripped for good: attaching a further trigger to it later must not reset it
        vp_assert(make_detector(0).isTripped(), 1908);
#if LINEKIND == 1
        TripWireTrigger again(*g_line0);
#elif LINEKIND == 2
        TripWireTrigger again;
#else
        TripWireTrigger again(0u);
#endif
        vp_assert(make_detector(0).isTripped(), 1909);
    }
#endif
    vp_cover(0);
}
// detector on line 0: false until a live trigger's destructor has begun; once true, true forever; sees the data
void vp_detector()
{
    TripWireDetector d = make_detector(0);
    bool a = d.isTripped();
    vp_log(1900, a ? 1 : 0);
    if (a) {
        vp_assert(vp_g(G_DTOR_BEGUN) == 1, 1900);
        vp_hb_data_read(0);
        vp_assert(vp_g(G_DATA) == 42, 1901);        // everything written before the trigger died is visible
    }
    vp_point();
    bool b = d.isTripped();
    vp_assert(!a || b, 1902);                        // one-way
    if (b) vp_cover(2);
#ifdef TWO_DET
    TripWireDetector d2 = make_detector(0);          // every detector on the line agrees
    bool c = d2.isTripped();
    vp_assert(!b || c, 1903);
#endif
    vp_cover(1);
}
// detector on the other line: never affected by line 0
void vp_other()
{
#if LINEKIND != 2
    TripWireDetector d = make_detector(1);
    bool a = d.isTripped();
    if (a) vp_assert(vp_g(2) == 1, 1904);           // only its own trigger can trip it
#endif
    vp_cover(1);
}
void vp_final()
{
    TripWireDetector d = make_detector(0);
    vp_log(1905, d.isTripped() ? 1 : 0);
    vp_assert(d.isTripped(), 1905);                  // after the trigger died the line is tripped for good
}
// sequential facts: out-of-range index is rejected with an exception; moved-from triggers are harmless
void vp_seq()
{
#if LINEKIND == 3
    bool thrown = false;
    try {
        // every index >= COUNT (symbolic), not only the sample a test would pick
        TripWireDetector bad(2u + static_cast<unsigned>(vp_nondet_range(0, 1 << 20)));
        (void)bad;
    }
    catch (const std::out_of_range&) {
        thrown = true;
    }
    vp_assert(thrown, 1910);
    bool thrown2 = false;
    try {
        TripWireTrigger badt(5u);
        (void)badt;
    }
    catch (...) {
        thrown2 = true;
    }
    vp_assert(thrown2, 1911);
    TripWireDetector d0(0u);
    TripWireDetector d1(1u);
    vp_assert(!d0.isTripped() && !d1.isTripped(), 1912);
    {
        TripWireTrigger t(1u);
        vp_assert(!d1.isTripped(), 1913);
    }
    vp_assert(d1.isTripped() && !d0.isTripped(), 1914);   // lines are independent
    {
        TripWireTrigger t2(1u);                            // a later trigger on a tripped line: the line stays tripped (one-way)
        vp_assert(d1.isTripped(), 1915);
        TripWireDetector d1b(1u);
        vp_assert(d1b.isTripped(), 1916);
    }
    vp_assert(d1.isTripped(), 1917);
#endif
    vp_cover(0);
}
}
