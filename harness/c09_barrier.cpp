// C09: Barrier releases a generation only when every participant has arrived
#include "gmlc/concurrency/Barrier.hpp"
#include "vp.h"
#ifndef NPART
#define NPART 2
#endif
#ifndef NGEN
#define NGEN 2
#endif
// DROPn = generation at which participant n calls wait_and_drop (NGEN = never); SYMDROP makes it a symbolic choice
#ifndef DROP1
#define DROP1 NGEN
#endif
#ifndef DROP2
#define DROP2 NGEN
#endif
#ifndef DROP3
#define DROP3 NGEN
#endif
using gmlc::concurrency::Barrier;
enum { G_ARR = 0 /* ..NGEN-1 */, G_DROP = 8 /* ..8+NGEN-1 */ };
extern "C" {
Barrier* g_bar;
void vp_setup() { g_bar = new Barrier(NPART); }

VP_INLINE void participant(int dropgen) noexcept
{
#pragma unroll
    for (int g = 0; g < NGEN; g++) {
        vp_gadd(G_ARR + g, 1);                // n-th arrival of this participant has begun
        if (g == dropgen) {
            vp_gadd(G_DROP + g, 1);
            g_bar->wait_and_drop();
        } else {
            g_bar->wait();
        }
        int required = NPART;
#pragma unroll
        for (int k = 0; k < g; k++) required -= vp_g(G_DROP + k);
        // nobody returns from its n-th call before all current participants made their n-th arrival
        vp_assert(vp_g(G_ARR + g) == required, 900);
        if (g == dropgen) break;
    }
    vp_cover(vp_tid() - 1);
}
#ifdef SYMDROP
void vp_part1() { participant(vp_nondet_range(0, NGEN)); }
void vp_part2() { participant(vp_nondet_range(0, NGEN)); }
void vp_part3() { participant(vp_nondet_range(0, NGEN)); }
#else
void vp_part1() { participant(DROP1); }
void vp_part2() { participant(DROP2); }
void vp_part3() { participant(DROP3); }
#endif
}
