// C16: DelayedDestructor destroys late, once, and never under its own lock
// The program shape is fixed per query by macros (a symbolic program made symbolic execution blow up, DESIGN §8); what stays
// symbolic is the schedule: where the adder, the external owner and the destroyer are pre-empted, and which try_lock_for times out.
#include "gmlc/concurrency/DelayedDestructor.hpp"
#include "vp.h"
using namespace gmlc::concurrency;
enum { G_EXT1 = 0 /* external owner of object k still holds it (1) */, G_EXT2 = 1, G_CB1 = 2 /* callback invocations for object k */, G_CB2 = 3,
       G_DEAD1 = 4, G_DEAD2 = 5, G_IN1 = 6 /* the hand-over of object k has returned */, G_IN2 = 7 };
struct X;
#ifdef SINGLE
using DD = DelayedDestructorSingleThread<X>;
#else
using DD = DelayedDestructor<X>;
#endif
extern "C" DD* g_dd;
VP_INLINE bool i_own_lock() noexcept
{
#ifdef SINGLE
    return false;
#else
    // destructionLock is the first member (std::timed_mutex over a pthread_mutex_t)
    return g_dd != nullptr && vp_mutex_owner(reinterpret_cast<const char*>(g_dd)) == vp_tid() + 1;
#endif
}
struct X {
    int id;
    explicit X(int i) noexcept: id(i) {}
    X(const X&) = delete;
    ~X()
    {
        vp_assert(vp_gadd(id == 1 ? G_DEAD1 : G_DEAD2, 1) == 1, 1604);   // exactly once
        vp_assert(vp_g(id == 1 ? G_EXT1 : G_EXT2) == 0, 1600);           // never while another owner still holds it
        vp_assert(!i_own_lock(), 1601);                                  // never under the container's internal lock
#ifdef WITH_CALLBACK
        if (vp_g(id == 1 ? G_IN1 : G_IN2)) vp_assert(vp_g(id == 1 ? G_CB1 : G_CB2) == 1, 1605);   // the callback ran once before a handed-over object went
#endif
#ifdef REENTER
        if (g_dd != nullptr) (void)g_dd->size();                         // re-entry from a destructor must not self-deadlock
#endif
    }
};
extern "C" {
DD* g_dd;
std::shared_ptr<X>* g_ext1;
std::shared_ptr<X>* g_ext2;
void vp_setup()
{
#ifdef WITH_CALLBACK
    g_dd = new DD([](std::shared_ptr<X>& p) {
        vp_assert(static_cast<bool>(p), 1602);
        vp_assert(vp_g(p->id == 1 ? G_DEAD1 : G_DEAD2) == 0, 1606);      // runs before the object is destroyed
        vp_assert(vp_gadd(p->id == 1 ? G_CB1 : G_CB2, 1) == 1, 1607);    // once per object
        vp_assert(!i_own_lock(), 1603);                                  // outside the lock
#ifdef REENTER
        (void)g_dd->size();
#endif
    });
#else
    g_dd = new DD();
#endif
    g_ext1 = new std::shared_ptr<X>(std::make_shared<X>(1));
    g_ext2 = new std::shared_ptr<X>(std::make_shared<X>(2));
    vp_gset(G_EXT1, 1);
    vp_gset(G_EXT2, 1);
#ifdef PRELOAD2
    // object 2 is already waiting, its external owner gone: the first destroyObjects reaps it
    g_dd->addObjectsToBeDestroyed(*g_ext2);
    vp_gset(G_IN2, 1);
    vp_gset(G_EXT2, 0);
    g_ext2->reset();
#endif
}
// adder: hands object 1 over, then lets go of it
void vp_adder()
{
    g_dd->addObjectsToBeDestroyed(*g_ext1);
    vp_gset(G_IN1, 1);
    vp_gset(G_EXT1, 0);
    g_ext1->reset();
#ifdef ADDER_DESTROYS
    (void)g_dd->destroyObjects();
#endif
    vp_cover(0);
}
void vp_destroyer()
{
    size_t n = g_dd->destroyObjects();
    vp_assert(n == static_cast<size_t>(-1) || n <= 2, 1620);
#ifndef LIGHT
    size_t s = g_dd->size();
    vp_assert(s <= 2, 1621);
#endif
    vp_cover(1);
}
// external owner of object 2 (added by the setup or by this thread) dropping it at some point
void vp_owner2()
{
#ifndef PRELOAD2
    g_dd->addObjectsToBeDestroyed(*g_ext2);
    vp_gset(G_IN2, 1);
    vp_gset(G_EXT2, 0);
    g_ext2->reset();
#endif
    size_t s = g_dd->size();
    vp_assert(s <= 2, 1622);
    vp_cover(2);
}
void vp_final()
{
    if (vp_g(G_EXT1)) {   // (a thread that did not finish inside the bound keeps its reference: not part of the final claim)
        vp_gset(G_EXT1, 0);
        g_ext1->reset();
    }
    if (vp_g(G_EXT2)) {
        vp_gset(G_EXT2, 0);
        g_ext2->reset();
    }
    size_t left = g_dd->size();
    int dead = vp_g(G_DEAD1) + vp_g(G_DEAD2);
    int handed = vp_g(G_IN1) + vp_g(G_IN2);
    vp_assert(static_cast<int>(left) + dead <= 2, 1623);                 // nothing duplicated
    vp_assert(static_cast<int>(left) + dead >= handed, 1625);            // nothing lost: a handed-over object is waiting or was destroyed
#ifdef FINAL_DELETE
    DD* d = g_dd;
    delete d;                                                            // at the latest now everything handed over is destroyed
    g_dd = nullptr;
    vp_assert(vp_g(G_DEAD1) == vp_g(G_IN1) && vp_g(G_DEAD2) == vp_g(G_IN2), 1624);   // nothing lost, nothing destroyed twice (1604)
#elif defined(LIGHT)
    // (quick-tier variant: accounting only, no further pass)
#else
    size_t l2 = g_dd->destroyObjects();                                  // all owners are gone: one pass reaps everything
    vp_assert(l2 == 0, 1626);
    vp_assert(vp_g(G_DEAD1) >= vp_g(G_IN1) && vp_g(G_DEAD2) >= vp_g(G_IN2), 1624);
#endif
}
// sequential life cycle (both classes): add, reap only unowned objects, callbacks, destruction reaps the rest
void vp_seq()
{
    g_dd->addObjectsToBeDestroyed(*g_ext1);
    vp_gset(G_IN1, 1);
    vp_assert(g_dd->size() == 1, 1610);
#ifdef DROP1_EARLY
    vp_gset(G_EXT1, 0);
    g_ext1->reset();
#endif
    g_dd->addObjectsToBeDestroyed(*g_ext2);
    vp_gset(G_IN2, 1);
    size_t left = g_dd->destroyObjects();
#ifdef DROP1_EARLY
    vp_assert(left == 1 && vp_g(G_DEAD1) == 1 && vp_g(G_DEAD2) == 0, 1611);   // only unowned objects are reaped
#else
    vp_assert(left == 2 && vp_g(G_DEAD1) == 0 && vp_g(G_DEAD2) == 0, 1611);
    vp_gset(G_EXT1, 0);
    g_ext1->reset();
#endif
#ifdef DROP2
    vp_gset(G_EXT2, 0);
    g_ext2->reset();
    left = g_dd->destroyObjects();
    vp_assert(left == 0 && vp_g(G_DEAD1) == 1 && vp_g(G_DEAD2) == 1, 1613);
#else
    left = g_dd->destroyObjects();
    vp_assert(left == 1 && vp_g(G_DEAD1) == 1 && vp_g(G_DEAD2) == 0, 1613);
#endif
    vp_cover(0);
}
}
