// C16: DelayedDestructor destroys late, once, and never under its own lock
#include "gmlc/concurrency/DelayedDestructor.hpp"
#include "vp.h"
using namespace gmlc::concurrency;
enum { G_EXT1 = 0 /* external owner of object k still holds it (1) */, G_EXT2 = 1, G_CB = 2 /* callback invocations */, G_REENTER = 3 };
struct X;
#ifdef SINGLE
using DD = DelayedDestructorSingleThread<X>;
#else
using DD = DelayedDestructor<X>;
#endif
extern "C" DD* g_dd;
VP_INLINE bool i_own_lock() noexcept
{
#ifdef SINGLE
    return false;
#else
    // destructionLock is the first member (std::timed_mutex over a pthread_mutex_t)
    return vp_mutex_owner(reinterpret_cast<const char*>(g_dd)) == vp_tid() + 1;
#endif
}
struct X {
    int id;
    explicit X(int i) noexcept: id(i) { vp_tab_add(0, this); }
    X(const X&) = delete;
    ~X()
    {
        vp_tab_del(0, this);                                   // exactly once (table asserts double destroy)
        vp_assert(vp_g(id == 1 ? G_EXT1 : G_EXT2) == 0, 1600);  // never while another owner still holds it
        vp_assert(!i_own_lock(), 1601);                        // never under the container's internal lock
        if (vp_g(G_REENTER) && g_dd != nullptr) {
            (void)g_dd->size();                                // re-entry from a destructor must not self-deadlock
        }
    }
};
extern "C" {
DD* g_dd;
std::shared_ptr<X>* g_ext1;
std::shared_ptr<X>* g_ext2;
void vp_setup()
{
    vp_gset(G_REENTER, vp_nondet_bool());
#ifdef WITH_CALLBACK
    g_dd = new DD([](std::shared_ptr<X>& p) {
        vp_gadd(G_CB, 1);
        vp_assert(p && vp_tab_has(0, p.get()), 1602);          // runs before the object is destroyed
        vp_assert(!i_own_lock(), 1603);
        if (vp_g(G_REENTER)) (void)g_dd->size();
    });
#else
    g_dd = new DD();
#endif
    g_ext1 = new std::shared_ptr<X>(std::make_shared<X>(1));
    g_ext2 = new std::shared_ptr<X>(std::make_shared<X>(2));
    vp_gset(G_EXT1, 1);
    vp_gset(G_EXT2, 1);
}
// sequential life cycle: add both, drop external references at symbolic points, destroy, check
void vp_seq()
{
    g_dd->addObjectsToBeDestroyed(*g_ext1);
    vp_assert(g_dd->size() == 1, 1610);
    bool drop1_early = vp_nondet_bool();
    if (drop1_early) { vp_gset(G_EXT1, 0); g_ext1->reset(); }
    g_dd->addObjectsToBeDestroyed(*g_ext2);
    size_t left = g_dd->destroyObjects();
    vp_assert(left == (drop1_early ? 1u : 2u), 1611);          // only unowned objects are reaped
    vp_assert(vp_tab_count(0) == (drop1_early ? 1 : 2), 1612);
    if (!drop1_early) { vp_gset(G_EXT1, 0); g_ext1->reset(); }
    bool drop2 = vp_nondet_bool();
    if (drop2) { vp_gset(G_EXT2, 0); g_ext2->reset(); }
    left = g_dd->destroyObjects();
    vp_assert(left == (drop2 ? 0u : 1u), 1613);
    vp_assert(vp_tab_count(0) == (drop2 ? 0 : 1), 1614);
#ifdef WITH_CALLBACK
    vp_assert(vp_g(G_CB) == (drop2 ? 2 : 1), 1615);            // once before each reaped object
#endif
    if (!drop2) { vp_gset(G_EXT2, 0); g_ext2->reset(); }
    DD* d = g_dd;
    delete d;                                                   // at the latest now everything is destroyed
    g_dd = nullptr;
    vp_assert(vp_tab_count(0) == 0, 1616);
    vp_cover(0);
}
// concurrent: adder, external owner dropping, destroyer
void vp_adder()
{
    g_dd->addObjectsToBeDestroyed(*g_ext1);
    vp_gset(G_EXT1, 0);
    g_ext1->reset();
    vp_cover(0);
}
void vp_destroyer()
{
    size_t n = g_dd->destroyObjects();
    (void)n;
    size_t s = g_dd->size();
    vp_assert(s <= 1, 1620);
    vp_cover(1);
}
void vp_final()
{
    vp_gset(G_EXT2, 0);
    g_ext2->reset();
    DD* d = g_dd;
    delete d;
    g_dd = nullptr;
    vp_assert(vp_tab_count(0) == 0, 1621);                      // nothing lost, nothing duplicated (tables)
}
}
