// C15: atomic_guarded and whole-object load/store behave as one atomic register (linearizability of every history)
#include "gmlc/libguarded/atomic_guarded.hpp"
#include "gmlc/libguarded/guarded.hpp"
#include "gmlc/libguarded/guarded_opt.hpp"
#include "gmlc/libguarded/ordered_guarded.hpp"
#include "vp.h"
#include <mutex>
#include <shared_mutex>
// register value v is stored as {v, v}; copy / assignment / comparison are two-step so that torn accesses are observable
struct P2 {
    int a;
    int b;
    P2() noexcept: a(0), b(0) {}
    explicit P2(int v) noexcept: a(v), b(v) {}
    P2(const P2& o) noexcept
    {
        a = o.a;
        vp_point();
        b = o.b;
    }
    P2& operator=(const P2& o) noexcept
    {
        a = o.a;
        vp_point();
        b = o.b;
        return *this;
    }
    bool operator==(const P2& o) const noexcept
    {
        bool x = (a == o.a);
        vp_point();
        return x && (b == o.b);
    }
};
#if WRAP == 6
using W = gmlc::libguarded::atomic_guarded<P2>;
#define MAKE() new W(0)
#elif WRAP == 1
using W = gmlc::libguarded::guarded<P2>;
#define MAKE() new W(0)
#elif WRAP == 2
using W = gmlc::libguarded::guarded_opt<P2>;
#define MAKE() new W(true, 0)
#elif WRAP == 5
using W = gmlc::libguarded::ordered_guarded<P2, std::shared_mutex>;
#define MAKE() new W(0)
#endif
enum Op { OP_NONE = 0, OP_LOAD, OP_STORE, OP_ASSIGN, OP_XCHG, OP_CAS };
enum { K_LOAD = 0, K_STORE = 1, K_XCHG = 2, K_CAS = 3 };
extern "C" {
W* g_w;
void vp_setup() { g_w = MAKE(); }

VP_INLINE void do_op(int op) noexcept
{
    switch (op) {
        case OP_LOAD: {
            int i = vp_hist_begin(K_LOAD, 0, 0);
            P2 v = g_w->load();
            vp_assert(v.a == v.b, 1500);                 // a load never returns a partially written value
            vp_hist_end(i, v.a, 0);
            vp_log(1500, v.a);
            break;
        }
        case OP_STORE: {
            int x = vp_nondet_range(0, 2);
            int i = vp_hist_begin(K_STORE, x, 0);
            g_w->store(P2(x));
            vp_hist_end(i, 0, 0);
            break;
        }
        case OP_ASSIGN: {
            int x = vp_nondet_range(0, 2);
            int i = vp_hist_begin(K_STORE, x, 0);
            *g_w = P2(x);
            vp_hist_end(i, 0, 0);
            break;
        }
#if WRAP == 6
        case OP_XCHG: {
            int x = vp_nondet_range(0, 2);
            int i = vp_hist_begin(K_XCHG, x, 0);
            P2 old = g_w->exchange(P2(x));
            vp_assert(old.a == old.b, 1501);
            vp_hist_end(i, old.a, 0);
            vp_log(1501, old.a);
            break;
        }
        case OP_CAS: {
            int e = vp_nondet_range(0, 2);
            int d = vp_nondet_range(0, 2);
            int i = vp_hist_begin(K_CAS, e, d);
            P2 expected(e);
            bool ok = g_w->compare_exchange(expected, P2(d));
            vp_assert(expected.a == expected.b, 1502);
            if (ok) vp_assert(expected.a == e, 1503);    // success leaves 'expected' alone
            vp_hist_end(i, ok ? 1 : 0, expected.a);
            vp_log(1502, (ok ? 100 : 0) + expected.a);
            break;
        }
#endif
        default: break;
    }
}
#ifndef T1_OPS
#define T1_OPS OP_NONE
#endif
#ifndef T2_OPS
#define T2_OPS OP_NONE
#endif
#ifndef T3_OPS
#define T3_OPS OP_NONE
#endif
void vp_t1()
{
    constexpr int ops[] = {T1_OPS};
#pragma unroll
    for (unsigned i = 0; i < sizeof(ops) / sizeof(int); i++) do_op(ops[i]);
    vp_cover(0);
}
void vp_t2()
{
    constexpr int ops[] = {T2_OPS};
#pragma unroll
    for (unsigned i = 0; i < sizeof(ops) / sizeof(int); i++) do_op(ops[i]);
    vp_cover(1);
}
void vp_t3()
{
    constexpr int ops[] = {T3_OPS};
#pragma unroll
    for (unsigned i = 0; i < sizeof(ops) / sizeof(int); i++) do_op(ops[i]);
    vp_cover(2);
}
void vp_final() { vp_lin_check(0); }

// sequential operation sequences: the same operations issued by one thread must behave as a plain register
void vp_seq()
{
    constexpr int ops[] = {T1_OPS};
#pragma unroll
    for (unsigned i = 0; i < sizeof(ops) / sizeof(int); i++) do_op(ops[i]);
    vp_lin_check(0);
    vp_cover(0);
}
}
