// C10: Latch opens exactly when the count is reached and never loses a wake-up
#include "gmlc/concurrency/Latch.hpp"
#include "vp.h"
using gmlc::concurrency::Latch;
enum { G_N = 0, G_BEGUN = 1 };
#ifndef TOTAL_ARRIVALS
#define TOTAL_ARRIVALS NARRIVE
#endif
extern "C" {
void vp_hb_data_write(int loc) noexcept;
void vp_hb_data_read(int loc) noexcept;
Latch* g_latch;
void vp_setup()
{
#ifdef COUNT
    int n = COUNT;
#else
    int n = vp_nondet_range(1, 2);
#endif
    vp_gset(G_N, n);
    g_latch = new Latch(n);
}
void vp_waiter()
{
    g_latch->wait();
    vp_assert(vp_g(G_BEGUN) >= vp_g(G_N), 1000);   // returns only after >= count arrive calls have begun
#ifdef HB_DATA
    // the datum is published to the waiter only if every arrival of the scenario is needed to open the latch
    if (vp_g(G_N) == TOTAL_ARRIVALS) vp_hb_data_read(0);
#endif
    g_latch->wait();                               // once open, every later wait returns
    vp_cover(vp_tid() - 1);
}
void vp_arriver()
{
#ifdef HB_DATA
    vp_hb_data_write(0);
#endif
#pragma unroll
    for (int k = 0; k < NARRIVE; k++) {
        vp_gadd(G_BEGUN, 1);
        unsigned w0 = vp_cvwaits();
        g_latch->arrive();
        vp_assert(vp_cvwaits() == w0, 1001);       // arrive never waits on the condition
    }
    vp_cover(vp_tid() - 1);
}
void vp_arrive_wait()
{
    vp_gadd(G_BEGUN, 1);
    g_latch->arrive_and_wait();
    vp_assert(vp_g(G_BEGUN) >= vp_g(G_N), 1002);
    vp_cover(vp_tid() - 1);
}
}
