// C04 (+ cow parts of C14, C20): cow_guarded snapshots are immutable; commits are atomic and never lost
#include "gmlc/libguarded/cow_guarded.hpp"
#include "vp.h"
#include <utility>
enum { G_COMMITS = 0, G_THROW_AT = 1, G_CALLS = 2 };
struct P2 {
    int a;
    int b;
#ifdef THROWING_COPY
    P2(int x, int y) noexcept: a(x), b(y) {}
    P2(const P2& o): a(o.a), b(o.b)
    {
        if (vp_gadd(G_CALLS, 1) == vp_g(G_THROW_AT)) throw 7;
    }
#endif
};
using COW = gmlc::libguarded::cow_guarded<P2>;
// layout: { lr_guarded<shared_ptr<const P2>> m_data; std::mutex m_writeMutex; }
#define WRITE_MUTEX_OFFSET sizeof(gmlc::libguarded::lr_guarded<std::shared_ptr<const P2>>)
static_assert(sizeof(COW) == WRITE_MUTEX_OFFSET + sizeof(std::mutex), "layout");
#ifndef WMODE
#define WMODE 0   // 0 commit, 1 cancel, 2 move the handle then commit, 3 symbolic (0..2), 4 move, cancel the moved-from handle, commit
#endif
#ifndef NSNAP
#define NSNAP 2
#endif
extern "C" {
COW* g_c;
void vp_setup()
{
    g_c = new COW(P2{0, 0});
#ifdef THROWING_COPY
    vp_gset(G_THROW_AT, vp_nondet_range(0, 2));
#endif
}
VP_INLINE void writer(int mode)
{
#ifdef THROWING_COPY
    bool caught = false;
    try {
#endif
        {
            auto h = g_c->lock();   // (try_lock / try_lock_for / try_lock_until do not compile when instantiated: handle() is ill-formed)
            vp_assert(static_cast<bool>(h), 400);
            vp_win_enter(0, 1);                        // (d) writers are serialised from lock() until release
            int base = h->a;
            vp_assert(base == vp_g(G_COMMITS) && h->b == base, 401);   // (b) starts from the latest committed value
            h->a = base + 1;
            h->b = base + 1;
            if (mode == 1) {
                vp_win_exit(0, 1);
                h.cancel();                            // discards the copy, frees the writer lock
                vp_assert(!static_cast<bool>(h), 402);
                {
                    const char* wm_ = reinterpret_cast<const char*>(g_c) + WRITE_MUTEX_OFFSET;
                    vp_assert(vp_mutex_owner(wm_) != vp_tid() + 1, 411);   // ... at once, not only when the (null) handle dies
                }
                vp_point();
            } else if (mode == 2) {
                COW::handle h2(std::move(h));          // duty to commit moves with the handle
                vp_gadd(G_COMMITS, 1);
                vp_win_exit(0, 1);
            } else if (mode == 4) {
                COW::handle h2(std::move(h));          // ... and so does the writer lock: the moved-from handle owns nothing,
                h.cancel();                            // cancelling it is a no-op
                {
                    const char* wm_ = reinterpret_cast<const char*>(g_c) + WRITE_MUTEX_OFFSET;
                    vp_assert(vp_mutex_owner(wm_) == vp_tid() + 1, 412);   // writers stay excluded until h2 is released
                }
                vp_point();
                vp_assert(h2->a == base + 1 && h2->b == base + 1, 413);
                vp_gadd(G_COMMITS, 1);
                vp_win_exit(0, 1);
            } else {
                vp_gadd(G_COMMITS, 1);
                vp_win_exit(0, 1);
            }
        }                                               // release: publish (unless cancelled)
#ifdef THROWING_COPY
    }
    catch (int) {
        caught = true;
    }
    // lock() copies the payload under the writer lock: if the copy throws, the lock is released and nothing is published
    if (caught) {
        const char* wm = reinterpret_cast<const char*>(g_c) + WRITE_MUTEX_OFFSET;
        vp_assert(vp_mutex_owner(wm) != vp_tid() + 1, 410);
    }
#endif
    vp_cover(vp_tid() - 1);
}
#ifndef WMODE_B
#define WMODE_B 0
#endif
#if WMODE == 3
void vp_writer() { writer(vp_nondet_range(0, 2)); }
#else
void vp_writer() { writer(WMODE); }
#endif
void vp_writer_b() { writer(WMODE_B); }
void vp_reader()
{
    int prev = 0;
#pragma unroll
    for (int k = 0; k < NSNAP; k++) {
        int c0 = vp_g(G_COMMITS);
#ifdef USE_TRY_SHARED
        auto s = g_c->try_lock_shared();
#else
        auto s = g_c->lock_shared();
#endif
        vp_assert(static_cast<bool>(s), 403);
        int a = s->a;
        int b = s->b;
        vp_log(404, a * 100 + b);
        vp_assert(a == b, 404);                        // complete state
        vp_assert(a >= prev, 405);
        vp_point();                                    // keep the snapshot across later commits
        vp_point();
        vp_assert(s->a == a && s->b == b, 406);        // (a) immutable and still valid (pointer checks: not freed)
        (void)c0;
        prev = a;
    }
    vp_cover(vp_tid() - 1);
}
void vp_final()
{
    vp_gset(G_THROW_AT, 0);
    const char* wm = reinterpret_cast<const char*>(g_c) + WRITE_MUTEX_OFFSET;
    vp_assert(vp_mutex_owner(wm) == 0, 409);                    // (c) writer lock free after commit / cancel / exception
    auto s = g_c->lock_shared();
    vp_assert(s->a == vp_g(G_COMMITS) && s->b == s->a, 407);   // no lost update, cancels leave the value untouched
    auto h = g_c->lock();                                       // writer lock is free (a leaked lock self-deadlocks here)
    vp_assert(static_cast<bool>(h), 408);
    h.cancel();
}
}
