// C12 (sequential part): every sequence of list operations agrees with a sequential reference list
#include "gmlc/libguarded/rcu_guarded.hpp"
#include "gmlc/libguarded/rcu_list.hpp"
#include "vp.h"
using RL = gmlc::libguarded::rcu_guarded<gmlc::libguarded::rcu_list<int>>;
#ifndef NOPS
#define NOPS 3
#endif
extern "C" {
RL* g_l;
void vp_setup() { g_l = new RL(); }
void vp_seq()
{
    int ref[NOPS + 1];
    int n = 0;
    auto w = g_l->lock_write();
#pragma unroll
    for (int step = 0; step < NOPS; step++) {
        int op = vp_nondet_range(0, 4);
        int v = 100 + step;
        if (op == 4 && n == 0) op = 0;
        if (op == 0 || op == 2) {            // push_front / emplace_front
            if (op == 0) w->push_front(v); else w->emplace_front(v);
            for (int k = n; k > 0; k--) ref[k] = ref[k - 1];
            ref[0] = v;
            n++;
        } else if (op == 1 || op == 3) {     // push_back / emplace_back
            if (op == 1) w->push_back(v); else w->emplace_back(v);
            ref[n] = v;
            n++;
        } else {                             // erase the k-th element
            int k = vp_nondet_range(0, NOPS);
            vp_assume(k < n);
            auto it = w->begin();
            for (int j = 0; j < k; j++) ++it;
            vp_assert(*it == ref[k], 1220);
            auto nx = w->erase(it);
            for (int j = k; j + 1 < n; j++) ref[j] = ref[j + 1];
            n--;
            // erase returns the iterator following the erased element
            if (k < n) vp_assert(nx != w->end() && *nx == ref[k], 1221);
            else vp_assert(!(nx != w->end()), 1222);
        }
        // full traversal equals the reference after every operation
        int i = 0;
        for (auto it = w->begin(); it != w->end(); ++it) {
            vp_assert(i < n, 1223);
            vp_log(1224, *it);
            vp_assert(*it == ref[i], 1224);
            i++;
        }
        vp_assert(i == n, 1225);
    }
    vp_cover(0);
}
}
