// Harness-side API: every function below is implemented by the encoder (engine/iremit.py MODELS) and by
// engine/vpmodels.h; none of them is a context-switch point except vp_point().
#pragma once
#define VP_INLINE static inline __attribute__((always_inline))
extern "C" {
void vp_assert(bool c, int id) noexcept;   // property assertion (id shows up in the cbmc property name)
void vp_assume(bool c) noexcept;
int vp_nondet_int() noexcept;
bool vp_nondet_bool() noexcept;
int vp_nondet_range(int lo, int hi) noexcept;   // inclusive
void vp_point() noexcept;                  // explicit context-switch point without effect
int vp_tid() noexcept;
int vp_g(int i) noexcept;                  // ghost integers (atomic with the preceding visible op)
void vp_gset(int i, int v) noexcept;
int vp_gadd(int i, int d) noexcept;        // returns the new value
void vp_win_enter(int obj, int excl) noexcept;  // access-window monitor (asserts reader/writer exclusion)
void vp_win_exit(int obj, int excl) noexcept;
int vp_win_readers(int obj) noexcept;       // readers currently inside the window
void vp_intent_excl(int delta) noexcept;    // +1 before an exclusive acquisition begins, -1 after it was released (C02)
void vp_intent_shared(int on) noexcept;     // the acquisition this thread is about to make is a shared one (C02)
int vp_hist_begin(int kind, int a1, int a2) noexcept;   // linearizability history (C15); kinds: 0 load 1 store 2 xchg 3 cas
void vp_hist_end(int idx, int r1, int r2) noexcept;
void vp_lin_check(int init) noexcept;
void vp_tab_add(int table, const void* p) noexcept;   // exactly-once tables: 0 = live objects, 1 = allocated blocks
void vp_tab_del(int table, const void* p) noexcept;   // asserts that p is in the table
int vp_tab_count(int table) noexcept;
int vp_tab_has(int table, const void* p) noexcept;
void vp_cover(int bit) noexcept;           // witness coverage bits
void vp_log(int tag, int v) noexcept;      // observation log (translation validation)
int vp_mutex_owner(const void* m) noexcept;     // model state of a pthread mutex: 0 free, else owner id + 1
int vp_rw_state(const void* l) noexcept;        // model state of a pthread rwlock: 0x100 writer | reader bitmask
unsigned vp_blockcount() noexcept;
unsigned vp_ublockcount() noexcept;         // ... blocked in a primitive without time-out
unsigned vp_cvwaits() noexcept;             // condition-variable waits this thread has begun         // how often this thread ended a context blocked
}
