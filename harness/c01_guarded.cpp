// C01 / C02: mutual exclusion of exclusive handles and whole-object operations; reader/writer exclusion; readers share.
// One wrapper/mutex instantiation and one operation list per thread are fixed per query (-D); the schedule is symbolic.
#include "gmlc/libguarded/guarded.hpp"
#include "gmlc/libguarded/guarded_opt.hpp"
#include "gmlc/libguarded/ordered_guarded.hpp"
#include "gmlc/libguarded/shared_guarded.hpp"
#include "gmlc/libguarded/shared_guarded_opt.hpp"
#include "vp.h"
#include <chrono>
#include <mutex>
#include <shared_mutex>

// payload with observable (two-step) copy and assignment: a torn copy shows up as a != b
struct P2 {
    int a;
    int b;
    P2() noexcept: a(0), b(0) {}
    P2(int x, int y) noexcept: a(x), b(y) {}
    P2(const P2& o) noexcept
    {
        a = o.a;
        vp_point();
        b = o.b;
    }
    P2& operator=(const P2& o) noexcept
    {
        a = o.a;
        vp_point();
        b = o.b;
        return *this;
    }
};

#if MUTEX == 1
using MTX = std::mutex;
#define SHARED_CAPABLE 0
#elif MUTEX == 2
using MTX = std::timed_mutex;
#define SHARED_CAPABLE 0
#define TIMED 1
#elif MUTEX == 3
using MTX = std::shared_mutex;
#define SHARED_CAPABLE 1
#elif MUTEX == 4
using MTX = std::shared_timed_mutex;
#define SHARED_CAPABLE 1
#define TIMED 1
#endif
#ifndef TIMED
#define TIMED 0
#endif

#if WRAP == 1
using W = gmlc::libguarded::guarded<P2, MTX>;
#define MAKE() new W(0, 0)
#elif WRAP == 2
using W = gmlc::libguarded::guarded_opt<P2, MTX>;
#define MAKE() new W(true, 0, 0)
#elif WRAP == 3
using W = gmlc::libguarded::shared_guarded<P2, MTX>;
#define MAKE() new W(0, 0)
#define HAS_SHARED 1
#elif WRAP == 4
using W = gmlc::libguarded::shared_guarded_opt<P2, MTX>;
#define MAKE() new W(true, 0, 0)
#define HAS_SHARED 1
#elif WRAP == 5
using W = gmlc::libguarded::ordered_guarded<P2, MTX>;
#define MAKE() new W(0, 0)
#define HAS_SHARED 1
#define ORDERED 1
#endif
#ifndef HAS_SHARED
#define HAS_SHARED 0
#endif
#ifndef ORDERED
#define ORDERED 0
#endif

enum Op {
    OP_NONE = 0,
    OP_LOCK_RMW,        // exclusive handle, read-modify-write of both fields
    OP_TRY_RMW,         // try_lock
    OP_TRYFOR_RMW,      // try_lock_for
    OP_TRYUNTIL_RMW,    // try_lock_until
    OP_LOAD,            // load()
    OP_STORE,           // store(value)
    OP_ASSIGN,          // operator=
    OP_MODIFY,          // ordered_guarded::modify
    OP_SHARED_READ,     // lock_shared, read twice
    OP_TRYSHARED_READ,  // try_lock_shared
    OP_TRYSHAREDFOR_READ,
    OP_TRYSHAREDUNTIL_READ,
    OP_CLOCK_READ,      // const lock() (shared_guarded) / read(functor) (ordered_guarded)
};
enum { G_RMW = 0, G_STORES = 1 };

extern "C" {
W* g_w;
void vp_setup() { g_w = MAKE(); }

VP_INLINE void rmw(P2& p) noexcept
{
    vp_win_enter(0, 1);
    int a0 = p.a;
    p.a = a0 + 1;
    int b0 = p.b;
    p.b = b0 + 1;
    vp_assert(a0 == b0, 100);          // nobody else was inside
    vp_win_exit(0, 1);
    vp_gadd(G_RMW, 1);
}
VP_INLINE void rd(const P2& p) noexcept
{
    vp_win_enter(0, 0);
    if (vp_win_readers(0) >= 2) vp_cover(7);    // two readers inside at the same time
    int a0 = p.a;
    int b0 = p.b;
    vp_log(200, a0 * 100 + b0);
    vp_assert(a0 == b0, 200);
    vp_point();                                  // keep the handle for a while
    int a1 = p.a;
    int b1 = p.b;
    vp_assert(a1 == a0 && b1 == b0, 201);        // no modification while a shared handle is alive
    vp_win_exit(0, 0);
}

VP_INLINE bool is_excl(int op) noexcept
{
    return op == OP_LOCK_RMW || op == OP_TRY_RMW || op == OP_TRYFOR_RMW || op == OP_TRYUNTIL_RMW || op == OP_STORE || op == OP_ASSIGN ||
        op == OP_MODIFY || op == OP_LOAD;
}
VP_INLINE void do_op1(int op, int val) noexcept;
VP_INLINE void do_op(int op, int val) noexcept
{
    if (is_excl(op)) vp_intent_excl(1);
    do_op1(op, val);
    if (is_excl(op)) vp_intent_excl(-1);
}
VP_INLINE void do_op1(int op, int val) noexcept
{
    switch (op) {
        case OP_LOCK_RMW: {
#if !ORDERED
            auto h = g_w->lock();
            vp_assert(static_cast<bool>(h), 101);
            rmw(*h);
#endif
            break;
        }
        case OP_TRY_RMW: {
#if !ORDERED
            auto h = g_w->try_lock();
            if (h) rmw(*h);
#endif
            break;
        }
        case OP_TRYFOR_RMW: {
#if TIMED && !ORDERED
            auto h = g_w->try_lock_for(std::chrono::milliseconds(3));
            if (h) rmw(*h);
#endif
            break;
        }
        case OP_TRYUNTIL_RMW: {
#if TIMED && !ORDERED
            auto h = g_w->try_lock_until(std::chrono::steady_clock::now() + std::chrono::milliseconds(3));
            if (h) rmw(*h);
#endif
            break;
        }
        case OP_LOAD: {
#if WRAP == 1 || WRAP == 2 || WRAP == 5
            P2 v = g_w->load();
            vp_assert(v.a == v.b, 102);            // never a partially written value
#endif
            break;
        }
        case OP_STORE: {
#if WRAP == 1 || WRAP == 2 || WRAP == 5
            vp_gadd(G_STORES, 1);
            g_w->store(P2(val, val));
#endif
            break;
        }
        case OP_ASSIGN: {
#if WRAP == 1 || WRAP == 2 || WRAP == 5
            vp_gadd(G_STORES, 1);
            *g_w = P2(val, val);
#endif
            break;
        }
        case OP_MODIFY: {
#if ORDERED
            if (val & 1) {
                g_w->modify([](P2& p) noexcept { rmw(p); });                      // void overload
            } else {
                int r = g_w->modify([](P2& p) noexcept { rmw(p); return p.a; });  // value-returning overload (separate template)
                vp_assert(r > 0, 103);
            }
#endif
            break;
        }
        case OP_SHARED_READ: {
#if HAS_SHARED
            vp_intent_shared(SHARED_CAPABLE);
            auto h = g_w->lock_shared();
            vp_intent_shared(0);
            vp_assert(static_cast<bool>(h), 202);
            rd(*h);
#endif
            break;
        }
        case OP_TRYSHARED_READ: {
#if HAS_SHARED
            auto h = g_w->try_lock_shared();
            if (h) rd(*h);
#endif
            break;
        }
        case OP_TRYSHAREDFOR_READ: {
#if HAS_SHARED && TIMED
            auto h = g_w->try_lock_shared_for(std::chrono::milliseconds(3));
            if (h) rd(*h);
#endif
            break;
        }
        case OP_TRYSHAREDUNTIL_READ: {
#if HAS_SHARED && TIMED
            auto h = g_w->try_lock_shared_until(std::chrono::steady_clock::now() + std::chrono::milliseconds(3));
            if (h) rd(*h);
#endif
            break;
        }
        case OP_CLOCK_READ: {
#if ORDERED
            vp_intent_shared(SHARED_CAPABLE);
            if (val & 1) {
                g_w->read([](const P2& p) noexcept {
                    vp_intent_shared(0);
                    rd(p);
                });
            } else {
                int r = g_w->read([](const P2& p) noexcept {                      // value-returning overload
                    vp_intent_shared(0);
                    rd(p);
                    return p.a;
                });
                (void)r;
            }
#elif HAS_SHARED
            vp_intent_shared(SHARED_CAPABLE);
            auto h = const_cast<const W*>(g_w)->lock();
            vp_intent_shared(0);
            rd(*h);
#endif
            break;
        }
        default: break;
    }
}

#ifndef T1_OPS
#define T1_OPS OP_NONE
#endif
#ifndef T2_OPS
#define T2_OPS OP_NONE
#endif
#ifndef T3_OPS
#define T3_OPS OP_NONE
#endif
#ifndef T4_OPS
#define T4_OPS OP_NONE
#endif
void vp_t1()
{
    constexpr int ops[] = {T1_OPS};
#pragma unroll
    for (unsigned i = 0; i < sizeof(ops) / sizeof(int); i++) do_op(ops[i], 1);
    vp_cover(0);
}
void vp_t2()
{
    constexpr int ops[] = {T2_OPS};
#pragma unroll
    for (unsigned i = 0; i < sizeof(ops) / sizeof(int); i++) do_op(ops[i], 2);
    vp_cover(1);
}
void vp_t3()
{
    constexpr int ops[] = {T3_OPS};
#pragma unroll
    for (unsigned i = 0; i < sizeof(ops) / sizeof(int); i++) do_op(ops[i], 3);
    vp_cover(2);
}
void vp_t4()
{
    constexpr int ops[] = {T4_OPS};
#pragma unroll
    for (unsigned i = 0; i < sizeof(ops) / sizeof(int); i++) do_op(ops[i], 4);
    vp_cover(3);
}

// runs after all threads finished
void vp_final()
{
    // the mutex follows the 8-byte payload in every wrapper (T m_obj; M m_mutex;)
    const char* mtx = reinterpret_cast<const char*>(g_w) + sizeof(P2);
#if SHARED_CAPABLE
    vp_assert(vp_rw_state(mtx) == 0, 110);      // no leaked lock
#else
    vp_assert(vp_mutex_owner(mtx) == 0, 110);
#endif
    const P2* raw = reinterpret_cast<const P2*>(g_w);
    vp_log(111, raw->a * 100 + raw->b);
    vp_assert(raw->a == raw->b, 111);
    if (vp_g(G_STORES) == 0) vp_assert(raw->a == vp_g(G_RMW), 112);   // no lost read-modify-write
    // every acquirer proceeds once holders released: a further exclusive acquisition succeeds
#if !ORDERED
    auto h = g_w->try_lock();
    vp_assert(static_cast<bool>(h), 113);
#endif
}
}
