// C03: lr_guarded readers see only complete, current states (DESIGN.md section 7, C03)
#include "gmlc/libguarded/lr_guarded.hpp"
#include "vp.h"
#include <chrono>
#ifndef NWRITES
#define NWRITES 2
#endif
#ifndef NREADS
#define NREADS 1
#endif
struct P { int a; int b; };
using LR = gmlc::libguarded::lr_guarded<P>;
static_assert(sizeof(P) == 8, "layout");
enum { G_STARTED = 0, G_RETURNED = 1 };
extern "C" {
LR* g_lr;
void vp_setup() { g_lr = new LR(P{0, 0}); }

VP_INLINE int side(const P* p) noexcept
{
    // m_left is the first member, m_right the second: the only two places a functor / handle may point to
    const char* base = reinterpret_cast<const char*>(g_lr);
    const char* q = reinterpret_cast<const char*>(p);
    vp_assert(q == base || q == base + sizeof(P), 300);
    return (q == base) ? 0 : 1;
}

void vp_writer()
{
#pragma unroll
    for (int i = 0; i < NWRITES; i++) {
        vp_gadd(G_STARTED, 1);
        g_lr->modify([](P& p) noexcept {
            int s = side(&p);
            vp_win_enter(s, 1);           // (a),(d): no reader and no other writer inside this copy
            int a0 = p.a;
            vp_assert(a0 == p.b, 301);    // copy is consistent when a writer starts on it
            p.a = a0 + 1;
            p.b = p.b + 1;
            vp_win_exit(s, 1);
        });
        vp_gadd(G_RETURNED, 1);
    }
    vp_cover(0);
}

void vp_reader()
{
    int prev = 0;
#pragma unroll
    for (int k = 0; k < NREADS; k++) {
        int ret0 = vp_g(G_RETURNED);      // modifies that had returned before lock_shared began
#if defined(READ_TRYFOR)
        auto h = (k & 1) ? g_lr->try_lock_shared_until(std::chrono::steady_clock::now()) : g_lr->try_lock_shared_for(std::chrono::milliseconds(1));
#elif defined(READ_TRY)
        auto h = g_lr->try_lock_shared();
#else
        auto h = g_lr->lock_shared();
#endif
        vp_assert(static_cast<bool>(h), 302);
        int s = side(h.get());
        vp_win_enter(s, 0);
        int a = h->a;
        int st1 = vp_g(G_STARTED);        // modifies started when the value was read
        int b = h->b;
        vp_log(303, a * 100 + b);
        vp_assert(a == b, 303);           // (b) complete state
        vp_assert(a >= ret0, 304);        // (c) current: sees every modify that returned before
        vp_assert(a <= st1, 305);         //     and nothing that has not started
        vp_assert(a >= prev, 306);        // values one reader observes never go backwards
        int a2 = h->a;
        int b2 = h->b;
        vp_assert(a2 == a && b2 == b, 307);   // (b) nobody touches the object while the handle is held
        vp_win_exit(s, 0);
        prev = a;
    }
    vp_cover(1);
}

void vp_final()
{
    const P* raw = reinterpret_cast<const P*>(g_lr);
    int total = vp_g(G_STARTED);
    vp_assert(vp_g(G_RETURNED) == total, 308);
    vp_assert(raw[0].a == total && raw[0].b == total, 309);   // (d) both copies went through the same states
    vp_assert(raw[1].a == total && raw[1].b == total, 310);
    auto h = g_lr->lock_shared();
    vp_log(311, h->a);
    vp_assert(h->a == total, 311);
}
}
