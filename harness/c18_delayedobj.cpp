// C18: every DelayedObjects future is fulfilled exactly once and never hangs (integer keys; <future> = harness/stubstd/future)
#include "gmlc/concurrency/DelayedObjects.hpp"
#include "vp.h"
using DO = gmlc::concurrency::DelayedObjects<int>;
// reference life cycle per key k in {1,2}: 0 unknown, 1 requested (future handed out, pending), 2 completed (value set), 3 finished (forgotten)
enum { G_STATE = 0 /* +k */, G_VAL = 4 /* +k: value the future must hold */ };
#ifndef NOPS
#define NOPS 3
#endif
extern "C" {
DO* g_do;
std::future<int>* g_fut[3];
void vp_setup() { g_do = new DO(); }

VP_INLINE bool ready(std::future<int>* f) { return f->wait_for(std::chrono::seconds(0)) == std::future_status::ready; }
VP_INLINE void check_queries()
{
#pragma unroll
    for (int k = 1; k <= 2; k++) {
        int st = vp_g(G_STATE + k);
        vp_assert(g_do->isRecognized(k) == (st == 1 || st == 2), 1800);
        vp_assert(g_do->isCompleted(k) == (st == 2), 1801);
        if (g_fut[k] != nullptr) vp_assert(ready(g_fut[k]) == (st >= 2), 1802);   // ready exactly when its key was completed
    }
}
VP_INLINE void one_op(int op, int k, int v)
{
    int st = vp_g(G_STATE + k);
    switch (op) {
        case 0:   // getFuture (each key requested at most once)
            if (st == 0) {
                g_fut[k] = new std::future<int>(g_do->getFuture(k));
                vp_gset(G_STATE + k, 1);
            }
            break;
        case 1:   // setDelayedValue(copy): harmless no-op for unknown / completed keys
        {
            const int cv = v;
            g_do->setDelayedValue(k, cv);
            if (st == 1) { vp_gset(G_STATE + k, 2); vp_gset(G_VAL + k, v); }
            break;
        }
        case 2:   // setDelayedValue(move)
        {
            int mv = v;
            g_do->setDelayedValue(k, std::move(mv));
            if (st == 1) { vp_gset(G_STATE + k, 2); vp_gset(G_VAL + k, v); }
            break;
        }
        case 3:   // fulfillAllPromises
            g_do->fulfillAllPromises(v);
#pragma unroll
            for (int j = 1; j <= 2; j++)
                if (vp_g(G_STATE + j) == 1) { vp_gset(G_STATE + j, 2); vp_gset(G_VAL + j, v); }
            break;
        case 4:   // finishedWithValue
            g_do->finishedWithValue(k);
            if (st == 2) vp_gset(G_STATE + k, 3);
            break;
        default: break;
    }
}
void vp_seq()
{
#pragma unroll
    for (int step = 0; step < NOPS; step++) {
        int op = vp_nondet_range(0, 4);
        int k = vp_nondet_range(1, 2);
        int v = 10 + step;
        one_op(op, k, v);
        check_queries();
    }
    // destruction fulfils whatever is still pending with a default-constructed value; nothing throws
    DO* d = g_do;
    delete d;
    g_do = nullptr;
#pragma unroll
    for (int k = 1; k <= 2; k++) {
        if (g_fut[k] != nullptr) {
            vp_assert(ready(g_fut[k]), 1810);                     // never hangs
            int got = g_fut[k]->get();
            int st = vp_g(G_STATE + k);
            vp_assert(got == (st >= 2 ? vp_g(G_VAL + k) : 0), 1811);   // the value of the first completion, else X{}
            vp_log(1811, got);
        }
    }
    vp_cover(0);
}
// concurrent: a consumer blocked in get(), a setter, a fulfil-all caller
void vp_setup2()
{
    g_do = new DO();
    g_fut[1] = new std::future<int>(g_do->getFuture(1));
    g_fut[2] = new std::future<int>(g_do->getFuture(2));
}
void vp_consumer()
{
    int got = g_fut[1]->get();                                    // blocks until fulfilled
    vp_assert(got == 41 || got == 99, 1820);
    vp_gset(8, got);
    vp_cover(0);
}
void vp_setter()
{
    g_do->setDelayedValue(1, 41);
    vp_assert(g_do->isCompleted(1), 1821);
    vp_cover(1);
}
void vp_fulfiller()
{
    g_do->fulfillAllPromises(99);
    vp_assert(g_do->isCompleted(1) && g_do->isCompleted(2), 1822);
    vp_cover(2);
}
void vp_final2()
{
    vp_assert(ready(g_fut[2]), 1823);
    int g2 = g_fut[2]->get();
    vp_assert(g2 == 99, 1824);
    DO* d = g_do;
    delete d;                                                     // no promise is satisfied twice (would throw inside a destructor)
    g_do = nullptr;
}
}
