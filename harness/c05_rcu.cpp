// C05 / C12 / C14(rcu part): rcu_list reclamation safety and traversal consistency
#include "gmlc/libguarded/rcu_guarded.hpp"
#include "gmlc/libguarded/rcu_list.hpp"
#include "vp.h"
using RL = gmlc::libguarded::rcu_guarded<gmlc::libguarded::rcu_list<int>>;
#ifndef NINIT
#define NINIT 2
#endif
extern "C" {
RL* g_l;
// initial contents 10, 20, (30): strictly increasing, later pushes are larger / smaller so list order = numeric order
void vp_setup()
{
    g_l = new RL();
    auto wh = g_l->lock_write();
    auto* w = &*wh;
#pragma unroll
    for (int i = 1; i <= NINIT; i++) w->push_back(10 * i);
}

// A: reader that registers, pauses on elements, dereferences and advances (every access must hit live memory: the
//    encoded real code is checked by cbmc's pointer checks - a freed node / record shows up as a dereference failure)
void vp_reader()
{
    auto r = g_l->lock_read();
    const auto& lst = *r;                 // one registration (the handle registers on first access)
    auto it = lst.begin();
    int prev = 0;
    int seen = 0;
#pragma unroll
    for (int k = 0; k < NINIT + 1; ++k) {
        if (!(it != lst.end())) break;
        vp_point();                       // pause on an arbitrary element
        int v = *it;
        vp_log(1200, v);
        vp_assert(v > prev, 1200);        // list order, at most once each
        vp_assert(v == 5 || v == 10 || v == 20 || v == 30 || v == 40, 1201);   // only values that were inserted
        if (v == 10) seen |= 1;
        if (v == 20) seen |= 2;
        if (v == 30) seen |= 4;
        prev = v;
        ++it;
    }
    vp_gset(2, seen);
    // every element that stayed in the list for the whole traversal was visited (the ghost is set before erase() begins)
    // (ghost 3: element the first writer set out to erase, ghost 6: element a second eraser set out to erase)
    if (!(seen & 1)) vp_assert(vp_g(3) == 10 || vp_g(6) == 10, 1202);
    if (!(seen & 2)) vp_assert(vp_g(3) == 20 || vp_g(6) == 20, 1203);
#if NINIT >= 3
    if (!(seen & 4)) vp_assert(vp_g(3) == 30 || vp_g(6) == 30, 1204);
#endif
    vp_cover(0);
}

// B: writer: erase an element at a symbolic position, optionally push
void vp_writer()
{
    auto wh = g_l->lock_write();
    auto* w = &*wh;
    auto it = w->begin();
#if ERASE_POS == 1
    ++it;
#elif ERASE_POS == 2
    ++it;
    ++it;
#elif ERASE_POS == -1
    if (vp_nondet_bool()) ++it;
#endif
    int victim = *it;
    vp_gadd(3, victim);                  // ghost: which value was erased
    vp_gset(7, vp_g(7) | (victim == 10 ? 1 : victim == 20 ? 2 : victim == 30 ? 4 : 0));   // ghost 7: set of erased values
    w->erase(it);
#ifdef ERASE_TWO
    {
        auto it2 = w->begin();           // ... and the new first element too: a stale second erase of the first victim by another
        if (it2 != w->end()) {           // writer must not bring this one back (its old neighbour)
            int victim2 = *it2;
            vp_gset(7, vp_g(7) | (victim2 == 10 ? 1 : victim2 == 20 ? 2 : victim2 == 30 ? 4 : 0));
            w->erase(it2);
        }
    }
#endif
#ifdef PUSH_BACK
    w->push_back(40);
#endif
#ifdef PUSH_FRONT
    w->push_front(5);
#endif
    vp_cover(1);
}

// C: short-lived handle whose release may reap
void vp_short()
{
    {
        auto r = g_l->lock_read();
        (void)(r->begin() != r->end());
    }
    vp_cover(2);
}

// second writer (C12: writers serialised)
void vp_writer2()
{
    auto w = g_l->lock_write();
#if defined(W2_ERASE_FIRST)
    auto it = w->begin();            // both writers may hold an iterator to the same element: erasing it twice must be harmless
    if (!(it != w->end())) {         // (the other writer may already have emptied the list)
        vp_cover(2);
        return;
    }
    int victim = *it;
    vp_gset(6, victim);
    vp_point();
    vp_gset(7, vp_g(7) | (victim == 10 ? 1 : victim == 20 ? 2 : victim == 30 ? 4 : 0));
    w->erase(it);
#elif defined(W2_EMPLACE)
    w->emplace_front(5);
#elif defined(W2_PUSH_FRONT)
    w->push_front(5);
#else
    w->push_back(40);
#endif
    vp_cover(2);
}

void vp_final()
{
    // contents after everything finished equal the sequential result; traversal under a fresh handle
    auto rh = g_l->lock_read();
    const auto* r = &*rh;
    int erased = vp_g(3);
    int prev = 0;
    int cnt = 0;
    int sum = 0;
    for (auto it = r->begin(); it != r->end(); ++it) {
        int v = *it;
        vp_log(1210, v);
        vp_assert(v > prev, 1210);
        vp_assert(v != erased, 1211);
        vp_assert(vp_g(6) == 0 || v != vp_g(6), 1213);
        vp_assert(!(vp_g(7) & (v == 10 ? 1 : v == 20 ? 2 : v == 30 ? 4 : 0)), 1214);   // an erased element never comes back
        prev = v;
        cnt++;
        sum += v;
    }
    vp_gset(4, cnt);
    vp_gset(5, sum);
#ifdef EXPECT_SUM
    vp_assert(sum == EXPECT_SUM - erased, 1212);
#endif
}
}
