// C11: TriggerVariable waits end only on their event, and the event wakes them
#include "gmlc/concurrency/TriggerVariable.hpp"
#include "vp.h"
using gmlc::concurrency::TriggerVariable;
enum { G_TRIG_BEGUN = 0, G_TRIG_DONE = 1, G_RESET_BEGUN = 2, G_ACT_BEGUN = 3, G_ACT_DONE = 4, G_RESET_DONE = 5 };
extern "C" {
TriggerVariable* g_tv;
void vp_setup_active() { g_tv = new TriggerVariable(true); }
void vp_setup_inactive() { g_tv = new TriggerVariable(false); }

// ---- scenario (i): activated in setup; nobody re-activates
void vp_waiter()
{
    bool r = g_tv->wait();
    vp_assert(r, 1100);
    vp_assert(vp_g(G_TRIG_BEGUN) > 0 || vp_g(G_RESET_BEGUN) > 0, 1101);   // only after a trigger()/reset() began
    vp_cover(vp_tid() - 1);
}
void vp_waiter_for()
{
    int done0 = vp_g(G_TRIG_DONE) + vp_g(G_RESET_DONE);
    bool r = g_tv->wait_for(std::chrono::milliseconds(10));
    if (r) vp_assert(vp_g(G_TRIG_BEGUN) > 0 || vp_g(G_RESET_BEGUN) > 0, 1102);
    else vp_assert(done0 == 0, 1103);   // false only if the event had not already happened when the call began
    vp_cover(vp_tid() - 1);
}
void vp_triggerer()
{
    vp_gadd(G_TRIG_BEGUN, 1);
    bool ok = g_tv->trigger();
    if (ok) vp_gadd(G_TRIG_DONE, 1);
#ifndef WITH_RESET
    vp_assert(ok, 1104);                // variable is active and nobody resets: trigger must succeed
    vp_assert(g_tv->isTriggered(), 1105);
#endif
    vp_cover(vp_tid() - 1);
}
void vp_resetter()
{
    vp_gadd(G_RESET_BEGUN, 1);
    g_tv->reset();
    vp_gadd(G_RESET_DONE, 1);
    vp_assert(!g_tv->isActive(), 1106);             // after reset() the variable is inactive (nobody re-activates here)
    vp_assert(g_tv->isTriggered(), 1107);           // reset on an active untriggered variable forces the trigger
    vp_cover(vp_tid() - 1);
}
// ---- scenario (ii): inactive in setup
void vp_act_waiter()
{
    g_tv->waitActivation();
    vp_assert(vp_g(G_ACT_BEGUN) > 0, 1110);
    vp_assert(g_tv->isActive(), 1111);
    vp_cover(vp_tid() - 1);
}
void vp_act_waiter_for()
{
    int done0 = vp_g(G_ACT_DONE);
    bool r = g_tv->wait_forActivation(std::chrono::milliseconds(10));
    if (r) vp_assert(vp_g(G_ACT_BEGUN) > 0, 1112);
    else vp_assert(done0 == 0, 1113);
    vp_cover(vp_tid() - 1);
}
void vp_activator()
{
    vp_gadd(G_ACT_BEGUN, 1);
    bool first = g_tv->activate();
    vp_gadd(G_ACT_DONE, 1);
    (void)first;
    vp_assert(g_tv->isActive(), 1114);
    vp_cover(vp_tid() - 1);
}
// ---- scenario (iv): inactive in setup; one activation races with a triggerer that retries after the activation,
//      a waiter that waits for the activation and then for the trigger (no re-activation, no reset)
void vp_act_then_wait()
{
    g_tv->waitActivation();
    bool r = g_tv->wait();                          // a trigger() succeeded or will succeed: must return
    vp_assert(r, 1140);
    vp_assert(g_tv->isTriggered() || vp_g(G_TRIG_DONE) == 0, 1141);
    vp_cover(vp_tid() - 1);
}
void vp_trigger_retry()
{
    vp_gadd(G_TRIG_BEGUN, 1);
    bool ok = g_tv->trigger();
    if (!ok) {
        g_tv->waitActivation();
        ok = g_tv->trigger();
        vp_assert(ok, 1142);                        // active and never reset: trigger succeeds
    }
    vp_gadd(G_TRIG_DONE, 1);
    vp_cover(vp_tid() - 1);
}
void vp_activator_once()
{
    vp_gadd(G_ACT_BEGUN, 1);
    g_tv->activate();
    vp_gadd(G_ACT_DONE, 1);
    vp_cover(vp_tid() - 1);
}
void vp_final_triggered()
{
    // a trigger() returned true after the only activation: the variable is triggered for good
    vp_assert(g_tv->isActive() && g_tv->isTriggered(), 1143);
}
// ---- scenario (iii): sequential facts
void vp_seq_inactive()
{
    TriggerVariable tv(false);
    bool t0 = tv.isTriggered();
    vp_assert(!tv.trigger(), 1120);                 // trigger on an inactive variable: no effect, returns false
    vp_assert(tv.isTriggered() == t0, 1121);
    vp_assert(tv.wait(), 1122);                     // wait on an inactive variable returns at once
    vp_assert(tv.activate(), 1123);
    vp_assert(!tv.activate(), 1124);
    vp_assert(tv.isActive() && !tv.isTriggered(), 1125);
    vp_assert(tv.trigger(), 1126);
    vp_assert(tv.isTriggered(), 1127);
    vp_assert(tv.wait(), 1128);                     // already triggered: returns without blocking
    tv.reset();
    vp_assert(!tv.isActive(), 1129);
    vp_assert(!tv.trigger(), 1130);
    tv.activate();
    vp_assert(!tv.isTriggered(), 1131);             // activation clears the previous trigger
    tv.reset();                                     // active, untriggered: reset triggers, then deactivates
    vp_assert(!tv.isActive() && tv.isTriggered(), 1132);
    vp_cover(0);
}
}
