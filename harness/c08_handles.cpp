// C08: a handle is non-null exactly when it holds the lock, and releases it once; disabled locking never waits.
#include "gmlc/libguarded/guarded.hpp"
#include "gmlc/libguarded/guarded_opt.hpp"
#include "gmlc/libguarded/ordered_guarded.hpp"
#include "gmlc/libguarded/shared_guarded.hpp"
#include "gmlc/libguarded/shared_guarded_opt.hpp"
#include "vp.h"
#include <chrono>
#include <mutex>
#include <shared_mutex>
#include <utility>
struct P2 { int a; int b; };

#if MUTEX == 1
using MTX = std::mutex;
#define RW 0
#elif MUTEX == 2
using MTX = std::timed_mutex;
#define RW 0
#elif MUTEX == 3
using MTX = std::shared_mutex;
#define RW 1
#elif MUTEX == 4
using MTX = std::shared_timed_mutex;
#define RW 1
#endif
#ifdef DISABLED
#define ENABLED false
#define DIS 1
#else
#define ENABLED true
#define DIS 0
#endif
#if WRAP == 1
using W = gmlc::libguarded::guarded<P2, MTX>;
#define MAKE() new W(P2{0, 0})
#elif WRAP == 2
using W = gmlc::libguarded::guarded_opt<P2, MTX>;
#define MAKE() new W(ENABLED, P2{0, 0})
#elif WRAP == 3
using W = gmlc::libguarded::shared_guarded<P2, MTX>;
#define MAKE() new W(P2{0, 0})
#elif WRAP == 4
using W = gmlc::libguarded::shared_guarded_opt<P2, MTX>;
#define MAKE() new W(ENABLED, P2{0, 0})
#elif WRAP == 5
using W = gmlc::libguarded::ordered_guarded<P2, MTX>;
#define MAKE() new W(P2{0, 0})
#endif
// FORM: 1 try_lock 2 try_lock_for 3 try_lock_until 4 try_lock_shared 5 try_lock_shared_for 6 try_lock_shared_until
//       7 lock (blocking, exclusive) 8 lock_shared (blocking) 9 const lock() (blocking, shared; shared_guarded / shared_guarded_opt)
// HOLD: 0 nobody 1 exclusive handle 2 shared handle (held by thread X across Y's attempt)
#define SHARED_FORM (FORM == 4 || FORM == 5 || FORM == 6 || FORM == 8 || FORM == 9)
#define UNTIMED_TRY (FORM == 1 || FORM == 4)

extern "C" {
W* g_w;
W* g_w2;
void vp_setup()
{
    g_w = MAKE();
    g_w2 = MAKE();
}
VP_INLINE const char* mtx_of(const W* w) noexcept { return reinterpret_cast<const char*>(w) + sizeof(P2); }

// does the calling thread hold w's lock (in the mode FORM asks for) according to the pthread model?
VP_INLINE bool i_hold(const W* w) noexcept
{
    int me = vp_tid();
#if RW
    int st = vp_rw_state(mtx_of(w));
#if SHARED_FORM
    return ((st >> me) & 1) != 0;
#else
    return (st >> 8) == me + 1;
#endif
#else
    return vp_mutex_owner(mtx_of(w)) == me + 1;
#endif
}
VP_INLINE bool untouched(const W* w) noexcept
{
#if RW
    return vp_rw_state(mtx_of(w)) == 0;
#else
    return vp_mutex_owner(mtx_of(w)) == 0;
#endif
}

#if FORM == 1
#define ACQ(w) (w)->try_lock()
#elif FORM == 2
#define ACQ(w) (w)->try_lock_for(std::chrono::milliseconds(2))
#elif FORM == 3
#define ACQ(w) (w)->try_lock_until(std::chrono::steady_clock::now() + std::chrono::milliseconds(2))
#elif FORM == 4
#define ACQ(w) (w)->try_lock_shared()
#elif FORM == 5
#define ACQ(w) (w)->try_lock_shared_for(std::chrono::milliseconds(2))
#elif FORM == 6
#define ACQ(w) (w)->try_lock_shared_until(std::chrono::steady_clock::now() + std::chrono::milliseconds(2))
#elif FORM == 7
#define ACQ(w) (w)->lock()
#elif FORM == 8
#define ACQ(w) (w)->lock_shared()
#elif FORM == 9
#define ACQ(w) const_cast<const W*>(w)->lock()
#endif

void vp_holder()
{
#if HOLD == 1
    auto h = g_w->lock();
    vp_gset(0, 1);
    vp_point();
    vp_point();
    vp_gset(0, 0);
#elif HOLD == 3
    auto h = const_cast<const W*>(g_w)->lock();
    vp_gset(0, 1);
    vp_point();
    vp_point();
    vp_gset(0, 0);
#elif HOLD == 2
    auto h = g_w->lock_shared();
    vp_gset(0, 1);
    vp_point();
    vp_point();
    vp_gset(0, 0);
#endif
    vp_cover(0);
}

void vp_contender()
{
    unsigned bc0 = vp_blockcount();
    unsigned ubc0 = vp_ublockcount();
    int lc = vp_nondet_range(0, 3);
    {
        auto h = ACQ(g_w);
        bool nn = static_cast<bool>(h);
#if DIS
        // locking disabled at construction: always a usable handle, no waiting, the mutex is never touched
        vp_assert(nn, 800);
        vp_assert(untouched(g_w), 801);
        vp_assert(vp_blockcount() == bc0, 802);
        vp_assert(h->a == h->b, 803);
#else
        vp_assert(nn == i_hold(g_w), 810);             // non-null  <=>  lock obtained
#if UNTIMED_TRY
        vp_assert(vp_blockcount() == bc0, 811);        // try forms never block
#endif
#if FORM == 2 || FORM == 3 || FORM == 5 || FORM == 6
        vp_assert(vp_ublockcount() == ubc0, 813);      // timed forms wait only in the timed primitive
#endif
#if FORM == 7 || FORM == 8 || FORM == 9
        vp_assert(nn, 812);
#endif
#endif
        if (nn) vp_cover(2);
        if (lc == 1) {
            h.unlock();
            vp_assert(!static_cast<bool>(h), 820);     // after unlock() the handle is null
#if !DIS
            vp_assert(!i_hold(g_w), 821);              // ... and the lock is released
#endif
        } else if (lc == 2) {
            {
                auto h2 = std::move(h);                // move-construct: duty to release moves to h2
                vp_assert(static_cast<bool>(h2) == nn, 822);
#if !DIS
                vp_assert(i_hold(g_w) == nn, 823);
#endif
            }
#if !DIS
            vp_assert(!i_hold(g_w), 824);              // released when h2 died, exactly once (model asserts double unlock)
#endif
        } else if (lc == 3) {
            auto other = ACQ(g_w2);                    // second wrapper is uncontended: always obtained
            vp_assert(static_cast<bool>(other), 825);
            other = std::move(h);                      // move-assign over a live handle: its old lock is released now
#if !DIS
            vp_assert(!i_hold(g_w2), 826);
            vp_assert(i_hold(g_w) == nn, 827);
#endif
            vp_assert(static_cast<bool>(other) == nn, 828);
        }
    }
#if !DIS
    vp_assert(!i_hold(g_w) && !i_hold(g_w2), 830);     // everything released at scope exit
#endif
    vp_cover(1);
}

void vp_final()
{
    vp_assert(untouched(g_w) && untouched(g_w2), 840);   // no leaked lock
#if WRAP != 5
    auto h = g_w->try_lock();                            // a later acquirer proceeds
    vp_assert(static_cast<bool>(h), 841);
#endif
}
}
