// C13: rcu_list destroys and frees everything it allocated exactly once, for any T (non-trivial destructor, custom allocator)
#include "gmlc/libguarded/rcu_guarded.hpp"
#include "gmlc/libguarded/rcu_list.hpp"
#include "vp.h"
#include <cstddef>
#include <new>
struct E {
    int id;
    explicit E(int i) noexcept: id(i) { vp_tab_add(0, this); }
    E(const E& o) noexcept: id(o.id) { vp_tab_add(0, this); }
    E(E&& o) noexcept: id(o.id) { vp_tab_add(0, this); }
    E& operator=(const E&) = delete;
    ~E() { vp_tab_del(0, this); }   // asserts: live, not null, not destroyed twice
};
template<class T>
struct CountingAlloc {
    using value_type = T;
    CountingAlloc() noexcept = default;
    template<class U>
    CountingAlloc(const CountingAlloc<U>&) noexcept {}
    T* allocate(std::size_t n)
    {
        T* p = static_cast<T*>(::operator new(n * sizeof(T)));
        vp_tab_add(1, p);
        return p;
    }
    void deallocate(T* p, std::size_t) noexcept
    {
        vp_tab_del(1, p);           // asserts: allocated by us, not null, not freed twice
        ::operator delete(p);
    }
    template<class U>
    bool operator==(const CountingAlloc<U>&) const noexcept { return true; }
    template<class U>
    bool operator!=(const CountingAlloc<U>&) const noexcept { return false; }
};
#ifdef STD_ALLOC
using LIST = gmlc::libguarded::rcu_list<E>;
#else
using LIST = gmlc::libguarded::rcu_list<E, std::mutex, CountingAlloc<E>>;
#endif
using RL = gmlc::libguarded::rcu_guarded<LIST>;
#ifndef NOPS
#define NOPS 4
#endif
extern "C" {
RL* g_l;
void vp_setup() { g_l = new RL(); }

VP_INLINE void one_op(int op, int step) noexcept
{
    if (op == 0) {                      // take a read handle, touch the list, release it
        auto r = g_l->lock_read();
        (void)(r->begin() != r->end());
    } else if (op == 1) {               // push
        auto w = g_l->lock_write();
        w->push_back(E(step));
    } else if (op == 2) {               // erase the first element, if any
        auto w = g_l->lock_write();
        auto it = w->begin();
        if (it != w->end()) w->erase(it);
    } else {                            // two handles alive at once, released in LIFO order
        auto r1 = g_l->lock_read();
        (void)(r1->begin() != r1->end());
        auto r2 = g_l->lock_read();
        (void)(r2->begin() != r2->end());
    }
}

void vp_seq()
{
    int objs0 = 0;
    bool only_handles = true;
#pragma unroll
    for (int step = 0; step < NOPS; step++) {
        int op = vp_nondet_range(0, 3);
        if (op == 1 || op == 2) only_handles = false;
        one_op(op, step);
        // taking and releasing handles with nothing erased destroys / frees only the handles' own records:
        if (only_handles) vp_assert(vp_tab_count(0) == objs0, 1300);
    }
    delete g_l;                         // all handles are released: everything must be gone now
    vp_log(1301, vp_tab_count(0) * 100 + vp_tab_count(1));
    vp_assert(vp_tab_count(0) == 0, 1301);   // every element destroyed (exactly once: the tables assert double destroy)
#ifndef STD_ALLOC
    vp_assert(vp_tab_count(1) == 0, 1302);   // every node / bookkeeping record deallocated
#endif
    vp_cover(0);
}

// two threads, fixed operations, symbolic schedule; the list is destroyed by the final step
#ifndef T1_OP
#define T1_OP 0
#endif
#ifndef T2_OP
#define T2_OP 2
#endif
void vp_setup2()
{
    g_l = new RL();
    auto w = g_l->lock_write();
    w->push_back(E(7));
}
void vp_t1() { one_op(T1_OP, 1); one_op(T1_OP2, 3); vp_cover(0); }
void vp_t2() { one_op(T2_OP, 2); vp_cover(1); }
void vp_final()
{
    delete g_l;
    vp_assert(vp_tab_count(0) == 0, 1303);
#ifndef STD_ALLOC
    vp_assert(vp_tab_count(1) == 0, 1304);
#endif
}
}
