// C20: throwing user code never leaves a wrapper locked or half-modified.
// Fault variable: the index of the user-code invocation that throws (0 = none) is a symbolic input; user code = functors,
// and the payload's copy constructor / assignment / operator==.
#include "gmlc/libguarded/atomic_guarded.hpp"
#include "gmlc/libguarded/guarded.hpp"
#include "gmlc/libguarded/lr_guarded.hpp"
#include "gmlc/libguarded/ordered_guarded.hpp"
#include "vp.h"
#include <mutex>
#include <shared_mutex>
enum { G_CALLS = 0, G_THROW_AT = 1, G_CAUGHT = 2, G_EXPECT = 3, G_W2 = 4 };
// every user-code entry point calls this: the k-th call throws if k == throw_at
VP_INLINE void maybe_throw()
{
    if (vp_gadd(G_CALLS, 1) == vp_g(G_THROW_AT)) {
        vp_gadd(8 + vp_tid(), 1);      // ghost: this thread's user code threw
        throw 7;
    }
}

#if WRAP == 7
// ------------------------------------------------------------------------------------------------ lr_guarded
struct P { int a; int b; };   // plain copies (roll-back / roll-forward copies must not throw: documented)
using LR = gmlc::libguarded::lr_guarded<P>;
extern "C" {
LR* g_lr;
void vp_setup()
{
    g_lr = new LR(P{0, 0});
    vp_gset(G_THROW_AT, vp_nondet_range(0, 4));   // app1 entry, app1 middle, app2 entry, app2 middle, or never
}
VP_INLINE void bump(P& p)
{
    maybe_throw();            // throw before touching the copy
    p.a = p.a + 1;
    maybe_throw();            // throw with the copy half modified
    p.b = p.b + 1;
}
void vp_writer()
{
    bool caught = false;
    int at = vp_g(G_THROW_AT);
    try {
        g_lr->modify([](P& p) { bump(p); });
    }
    catch (int) {
        caught = true;
    }
    vp_log(2000, (caught ? 10 : 0) + at);
    vp_assert(caught == (at != 0), 2000);            // the exception reaches the caller iff user code threw
    // all-or-nothing: a throw from the first application leaves the value unchanged, one from the second completes it
    int expect = (at == 1 || at == 2) ? 0 : 1;
    vp_gset(G_EXPECT, expect);
    vp_gset(G_CAUGHT, 1);
    {
        int w2 = vp_g(G_W2);                              // 0 not started, 1 in progress, 2 returned (sampled before the read)
        auto h = g_lr->lock_shared();
        int a = h->a;
        vp_assert(h->b == a, 2001);
        vp_assert((a == expect && w2 != 2) || (a == expect + 5 && (w2 >= 1 || vp_g(G_W2) >= 1)), 2007);
    }
    // wrapper stays usable: two further modifications flip through both copies
    g_lr->modify([](P& p) noexcept { p.a += 10; p.b += 10; });
    g_lr->modify([](P& p) noexcept { p.a += 10; p.b += 10; });
    {
        int w2 = vp_g(G_W2);
        auto h = g_lr->lock_shared();
        int a = h->a;
        vp_assert(h->b == a, 2002);
        vp_assert((a == expect + 20 && w2 != 2) || (a == expect + 25 && (w2 >= 1 || vp_g(G_W2) >= 1)), 2008);
    }
    vp_cover(0);
}
void vp_reader()
{
#pragma unroll
    for (int k = 0; k < 2; k++) {
        auto h = g_lr->lock_shared();
        int a = h->a;
        int b = h->b;
        vp_assert(a == b, 2003);                     // readers never see a half-applied or half-rolled-back state
        vp_point();
        vp_assert(h->a == a && h->b == b, 2004);
    }
    vp_cover(1);
}
void vp_writer2()
{
    vp_gset(G_W2, 1);
    g_lr->modify([](P& p) noexcept { p.a += 5; p.b += 5; });   // another writer proceeds: the write mutex was released
    vp_gset(G_W2, 2);
    vp_cover(2);
}
void vp_final()
{
    const P* raw = reinterpret_cast<const P*>(g_lr);
    int total = vp_g(G_EXPECT) + 20 + (vp_g(G_W2) == 2 ? 5 : 0);
    vp_assert(raw[0].a == total && raw[0].b == total && raw[1].a == total && raw[1].b == total, 2005);   // one consistent value on both sides
    const char* mtx = reinterpret_cast<const char*>(g_lr) + 32;
    vp_assert(vp_mutex_owner(mtx) == 0, 2006);
}
}
#else
// ------------------------------------------------------------------------------------------------ guarded / ordered / atomic
struct PT {
    int a;
    int b;
    PT() noexcept: a(0), b(0) {}
    explicit PT(int v) noexcept: a(v), b(v) {}
    PT(const PT& o): a(0), b(0)
    {
        maybe_throw();
        a = o.a;
        b = o.b;
    }
    PT& operator=(const PT& o)
    {
        maybe_throw();
        a = o.a;
        b = o.b;
        return *this;
    }
    bool operator==(const PT& o) const
    {
        maybe_throw();
        return a == o.a && b == o.b;
    }
};
#if WRAP == 1
using W = gmlc::libguarded::guarded<PT>;
#define RW 0
#elif WRAP == 5
using W = gmlc::libguarded::ordered_guarded<PT, std::shared_mutex>;
#define RW 1
#elif WRAP == 6
using W = gmlc::libguarded::atomic_guarded<PT>;
#define RW 0
#endif
enum Op { OP_STORE = 1, OP_LOAD, OP_ASSIGN, OP_XCHG, OP_CAS, OP_MODIFY, OP_READ, OP_MODIFYV, OP_READV };
extern "C" {
W* g_w;
void vp_setup()
{
    g_w = new W(1);
    vp_gset(G_CALLS, 0);
    vp_gset(G_THROW_AT, vp_nondet_range(0, 4));
}
VP_INLINE bool lock_free_now() noexcept
{
    const char* mtx = reinterpret_cast<const char*>(g_w) + sizeof(PT);
#if RW
    int st = vp_rw_state(mtx);
    int me = vp_tid();
    return (st >> 8) != me + 1 && ((st >> me) & 1) == 0;
#else
    return vp_mutex_owner(mtx) != vp_tid() + 1;
#endif
}
VP_INLINE void do_op(int op)
{
    int threw0 = vp_g(8 + vp_tid());
    bool caught = false;
    try {
        switch (op) {
            case OP_STORE: { PT v(2); g_w->store(v); break; }
            case OP_ASSIGN: { PT v(3); *g_w = v; break; }
            case OP_LOAD: { PT v = g_w->load(); (void)v; break; }
#if WRAP == 6
            case OP_XCHG: { PT v(4); PT old = g_w->exchange(v); (void)old; break; }
            case OP_CAS: { PT e(1); PT d(5); (void)g_w->compare_exchange(e, d); break; }
#endif
#if WRAP == 5
            case OP_MODIFY: g_w->modify([](PT& p) { maybe_throw(); p.a += 1; p.b += 1; }); break;
            case OP_READ: g_w->read([](const PT& p) { maybe_throw(); vp_assert(p.a == p.b, 2010); }); break;
            // the value-returning overloads are separate function templates with their own locking
            case OP_MODIFYV: { int r = g_w->modify([](PT& p) { maybe_throw(); p.a += 1; p.b += 1; return p.a; }); vp_assert(r >= 2, 2016); break; }
            case OP_READV: { int r = g_w->read([](const PT& p) { maybe_throw(); return p.a - p.b; }); vp_assert(r == 0, 2010); break; }
#endif
            default: break;
        }
    }
    catch (int) {
        caught = true;
        vp_assert(lock_free_now(), 2011);            // whatever lock the wrapper took is released when the exception arrives
    }
    bool threw = (vp_g(8 + vp_tid()) != threw0);
    vp_log(2012, (caught ? 10 : 0) + (threw ? 1 : 0));
    vp_assert(caught == threw, 2012);                 // propagated iff user code threw during this operation
    vp_assert(lock_free_now(), 2013);
}
#ifndef T1_OPS
#define T1_OPS OP_STORE
#endif
#ifndef T2_OPS
#define T2_OPS OP_LOAD
#endif
void vp_t1()
{
    constexpr int ops[] = {T1_OPS};
#pragma unroll
    for (unsigned i = 0; i < sizeof(ops) / sizeof(int); i++) do_op(ops[i]);
    vp_cover(0);
}
void vp_t2()
{
    constexpr int ops[] = {T2_OPS};
#pragma unroll
    for (unsigned i = 0; i < sizeof(ops) / sizeof(int); i++) do_op(ops[i]);
    vp_cover(1);
}
void vp_final()
{
    const char* mtx = reinterpret_cast<const char*>(g_w) + sizeof(PT);
#if RW
    vp_assert(vp_rw_state(mtx) == 0, 2014);
#else
    vp_assert(vp_mutex_owner(mtx) == 0, 2014);
#endif
    vp_gset(G_THROW_AT, 0);
    g_w->store(PT(9));                                // still usable
    PT v = g_w->load();
    vp_assert(v.a == 9 && v.b == 9, 2015);
}
}
#endif
