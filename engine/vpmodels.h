/* Environment models, scheduler support and harness monitors for the generated step machines.
 * One translation unit: this header is #included by every generated query file.
 * Two builds:  cbmc (default)  and  native (-DVP_NATIVE, used by translation validation / replay of the
 * generated C itself).  See DESIGN.md section 4 for the contract each model assumes. */
#ifndef VPMODELS_H
#define VPMODELS_H
#include <stdint.h>
#include <stdlib.h>
#include <string.h>

#define VP_MAXT 6
enum { VP_B_NONE, VP_B_MUTEX, VP_B_RD, VP_B_WR, VP_B_CV, VP_B_CVT, VP_B_YIELD, VP_B_TIMED, VP_B_GUARD };
enum { VP_O_NA, VP_O_UNORDERED, VP_O_MONOTONIC, VP_O_ACQUIRE, VP_O_RELEASE, VP_O_ACQ_REL, VP_O_SEQ_CST };

#ifdef VP_NATIVE
#include <stdio.h>
extern int vp_native_nondet(int kind);
extern void vp_native_assert_fail(int id, const char* txt);
extern void vp_native_assume_fail(void);
#define __CPROVER_assume(c) do { if (!(c)) vp_native_assume_fail(); } while (0)
#define __CPROVER_assert(c, txt) do { if (!(c)) vp_native_assert_fail(-1, txt); } while (0)
static inline int vp_nd_int(void) { return vp_native_nondet(0); }
static inline unsigned vp_nd_uint(void) { return (unsigned)vp_native_nondet(1); }
static inline unsigned char vp_nd_uchar(void) { return (unsigned char)vp_native_nondet(2); }
/* draws made by harness code (inputs); in translation-validation mode only these come from the vector */
static inline int vp_ndh_int(void) { return vp_native_nondet(10); }
static inline unsigned char vp_ndh_uchar(void) { return (unsigned char)vp_native_nondet(12); }
extern void vp_native_dump(const int* ghost, int ng, unsigned covered);
#define VP_ASSERT(c, id) do { if (!(c)) vp_native_assert_fail(id, "vp_assert"); } while (0)
#define VP_DIV1E9(x) ((x) / 1000000000)
#define VP_CHECK(c, txt) do { if (!(c)) vp_native_assert_fail(-1, txt); } while (0)
static unsigned vp_nd_acc; static long long vp_nd_last;
#else
int nondet_int(void);
unsigned nondet_uint(void);
unsigned char nondet_uchar(void);
/* every nondeterministic draw is recorded in vp_nd_last, so that the order and values can be read off a cbmc trace and fed
   to the native build of the same generated C (replay of the counter-example, vcheck.py) */
long long vp_nd_last; unsigned vp_nd_acc;   /* vp_nd_acc feeds a (trivially true) final assertion so that --slice-formula keeps every draw in the trace */
static inline int vp_nd_int(void) { int v = nondet_int(); vp_nd_last = v; vp_nd_acc ^= (unsigned)v; return v; }
static inline unsigned vp_nd_uint(void) { unsigned v = nondet_uint(); vp_nd_last = v; vp_nd_acc ^= v; return v; }
static inline unsigned char vp_nd_uchar(void) { unsigned char v = nondet_uchar(); vp_nd_last = v; vp_nd_acc ^= v; return v; }
#define vp_ndh_int vp_nd_int
#define vp_ndh_uchar vp_nd_uchar
#define VP_STR2(x) #x
#define VP_STR(x) VP_STR2(x)
#ifdef VP_WITNESS
#define VP_ASSERT(c, id) ((void)0)
#define VP_CHECK(c, txt) ((void)0)
#else
#define VP_ASSERT(c, id) __CPROVER_assert((c), "vp_assert id=" VP_STR(id))
#define VP_CHECK(c, txt) __CPROVER_assert((c), txt)
#endif
#define VP_DIV1E9(x) 0
#endif

/* context budget: symbolic in verify / cover runs; the plain witness twin runs every thread greedily (until it blocks
   or finishes), which is enough to show that the final assertions are reachable inside the bound */
#if (defined(VP_WITNESS) && !defined(VP_MUST_COVER) && !defined(VP_WITNESS_SYMBOLIC)) || defined(VP_GREEDY)
#define VP_BUDGET(maxb) (maxb)
#else
static inline unsigned vp_budget(unsigned maxb) { unsigned b = vp_nd_uchar(); __CPROVER_assume(b <= maxb); return b; }
#define VP_BUDGET(maxb) vp_budget(maxb)
#endif
/* ------------------------------------------------------------------ scheduler state */
int vp_cur;                      /* id of the running thread (0 = setup / final) */
unsigned vp_epoch;               /* incremented by every visible write: fair-spin yields block until it changes */
int vp_blk_kind[VP_MAXT];
char* vp_blk_a[VP_MAXT];
char* vp_blk_b[VP_MAXT];
unsigned vp_yepoch[VP_MAXT];
int vp_spur[VP_MAXT];            /* remaining spurious wake-ups per thread */
int vp_wake_reason[VP_MAXT];     /* 0 notified, 1 spurious, 2 time-out */
unsigned vp_blockcount_[VP_MAXT]; /* how often a thread ended a context blocked (C14 uses it) */
int vp_plain_blocked;
unsigned vp_ublockcount_[VP_MAXT]; /* ... blocked in a primitive that has no time-out */
unsigned vp_cvwaits_[VP_MAXT];    /* condition-variable waits begun per thread */            /* a blocking primitive was not enabled inside sequential / atomic code */

#ifndef VP_DYN_ALLOC_MAX
#define VP_DYN_ALLOC_MAX 64   /* bytes handed out for an allocation whose size is symbolic (e.g. 8 pointers / 4 shared_ptrs) */
#endif
/* event counter (native builds): every load/store/atomic/fence/mem intrinsic/visible model call, private or not */
#ifdef VP_NATIVE
unsigned vp_ev_n[8];
#define VP_EV(kind) (vp_ev_n[vp_cur]++)
#else
#define VP_EV(kind) ((void)0)
#endif
#ifdef VP_NATIVE
extern int vp_native_pos(void);
static unsigned vp_ctx_ev0; static int vp_ctx_pos0;
#define VP_CTX_BEGIN(t) do { vp_ctx_ev0 = vp_ev_n[t]; vp_ctx_pos0 = vp_native_pos(); printf("BEGIN %d\n", t); fflush(stdout); } while (0)
#define VP_CTX_END(t, name, done, drawn) do { printf("CTX %d %s %u %d %d %d %d\n", t, name, vp_ev_n[t] - vp_ctx_ev0, vp_native_pos() - vp_ctx_pos0, vp_blk_kind[t], done, drawn); fflush(stdout); } while (0)
#define VP_CTX_SKIP(t, drawn) printf("SKIP %d %d\n", t, drawn)
#else
#define VP_CTX_BEGIN(t) ((void)0)
#define VP_CTX_END(t, name, done, drawn) ((void)0)
#define VP_CTX_SKIP(t, drawn) ((void)0)
#endif
#ifndef VP_STEP
#define VP_STEP(k)
#endif
#ifndef VP_NEW
#define VP_NEW(p)
#endif

int vp_intent_[VP_MAXT];          /* harness announced that the acquisition in progress is a shared (reader) one */
int vp_excl_intents;              /* exclusive acquisitions begun and not yet released (harness ghost) */
static inline void vp_intent_shared(int32_t on) { vp_intent_[vp_cur] = on; }
static inline void vp_intent_excl(int32_t d) { vp_excl_intents += d; }
static inline void vp_blocked(int t, int kind, char* a, char* b) {
  vp_blk_kind[t] = kind; vp_blk_a[t] = a; vp_blk_b[t] = b; vp_blockcount_[t]++;
  if (kind != VP_B_TIMED && kind != VP_B_CVT) vp_ublockcount_[t]++;
  /* C02: with a shared-capable lock a reader is never blocked merely by other readers */
  if ((kind == VP_B_WR || kind == VP_B_RD || kind == VP_B_MUTEX) && vp_intent_[t] && vp_excl_intents == 0)
    VP_CHECK(0, "shared acquisition blocks although no writer holds or wants the lock (reader blocked merely by readers)");
}
static inline unsigned vp_blockcount(void) { return vp_blockcount_[vp_cur]; }
static inline unsigned vp_ublockcount(void) { return vp_ublockcount_[vp_cur]; }
static inline unsigned vp_cvwaits(void) { return vp_cvwaits_[vp_cur]; }
static inline void vp_plain_block(int kind, char* a) {
  /* sequential code (setup, final, sequential harnesses) or an atomic section of a thread (indirect-call target, plumbing run atomically)
     reached a blocking primitive whose condition is false.
       - setup / final / sequential harness: nobody else can run -> self-deadlock;
       - atomic section, lock held by the calling thread itself -> self-deadlock (e.g. a destructor that runs under the container's lock
         and re-enters the container);
       - atomic section, lock held by ANOTHER thread: the real thread would simply wait.  The atomic section cannot be suspended in this
         encoding, so the schedule is dropped (under-approximation, stated with the "indirect calls execute atomically" assumption). */
  int self = 1;
  if (vp_cur != 0) {
    if (kind == VP_B_MUTEX || kind == VP_B_TIMED) self = (*(int*)a == vp_cur + 1);
    else if (kind == VP_B_RD || kind == VP_B_WR) self = (((int*)a)[0] == vp_cur + 1) || ((((int*)a)[1] >> vp_cur) & 1);
  }
  if (self) VP_CHECK(0, "blocking primitive not enabled in sequential/atomic context (self-deadlock)");
  __CPROVER_assume(0);
}
static inline uint8_t vp_nondet_bool(void) { return vp_ndh_uchar() & 1; }
static inline int32_t vp_nondet_int(void) { return vp_ndh_int(); }
static inline int32_t vp_nondet_range(int32_t lo, int32_t hi) { int v = vp_ndh_int(); __CPROVER_assume(v >= lo && v <= hi); return v; }
static inline int32_t vp_tid(void) { return vp_cur; }
static inline void vp_point(void) {}
static inline int vp_timeout_fires(void) { return vp_nd_uchar() & 1; }

/* ------------------------------------------------------------------ ghost state for harness monitors */
#define VP_NG 24
int32_t vp_ghost[VP_NG];
static inline int32_t vp_g(int32_t i) { return vp_ghost[i]; }
static inline void vp_gset(int32_t i, int32_t v) { vp_ghost[i] = v; }
static inline int32_t vp_gadd(int32_t i, int32_t d) { vp_ghost[i] += d; return vp_ghost[i]; }
unsigned vp_covered;
static inline void vp_cover(int32_t bit) { vp_covered |= (1u << bit); }

/* access windows on a protected object: kind 0 = shared (reader), 1 = exclusive (writer) */
#define VP_NWIN 4
int vp_win_r[VP_NWIN], vp_win_w[VP_NWIN];
int vp_win_maxr[VP_NWIN];
static inline void vp_win_enter(int32_t obj, int32_t excl) {
  if (excl) {
    VP_CHECK(vp_win_w[obj] == 0, "window: exclusive access while another exclusive access is active");
    VP_CHECK(vp_win_r[obj] == 0, "window: exclusive access while a shared access is active");
    vp_win_w[obj]++;
  } else {
    VP_CHECK(vp_win_w[obj] == 0, "window: shared access while an exclusive access is active");
    vp_win_r[obj]++;
    if (vp_win_r[obj] > vp_win_maxr[obj]) vp_win_maxr[obj] = vp_win_r[obj];
  }
}
static inline int32_t vp_win_readers(int32_t obj) { return vp_win_r[obj]; }
static inline void vp_win_exit(int32_t obj, int32_t excl) {
  if (excl) vp_win_w[obj]--; else vp_win_r[obj]--;
}
#ifdef VP_NATIVE
void vp_log(int32_t tag, int32_t v);
#else
static inline void vp_log(int32_t tag, int32_t v) { (void)tag; (void)v; }
#endif

#ifdef VP_HB
static inline void vp_hb_lock(char* m);
static inline void vp_hb_unlock(char* m);
#else
#define vp_hb_lock(m) ((void)0)
#define vp_hb_unlock(m) ((void)0)
#endif
/* ------------------------------------------------------------------ mutex (pthread_mutex_t: word 0 = owner+1) */
static inline int vp_mutex_free(char* m) { return *(int*)m == 0; }
static inline int32_t vp_mutex_owner_of(char* m) { return *(int*)m; }
static inline int vp_mutex_lock(char* m) {
  VP_CHECK(*(int*)m != vp_cur + 1, "mutex: relock by owner (self-deadlock)");
  *(int*)m = vp_cur + 1; vp_hb_lock(m); return 0;
}
static inline int vp_mutex_trylock(char* m) {
  if (*(int*)m != 0) return 16; /* EBUSY */
  *(int*)m = vp_cur + 1; vp_hb_lock(m); return 0;
}
static inline int vp_mutex_unlock(char* m) {
  VP_CHECK(*(int*)m == vp_cur + 1, "mutex: unlock by a thread that does not own it");
  vp_hb_unlock(m); *(int*)m = 0; return 0;
}
static inline int vp_mutex_clocklock(char* m, int clk, char* ts) {
  (void)clk; (void)ts;
  if (*(int*)m != 0) return 110; /* ETIMEDOUT: the always-enabled time-out transition fired */
  *(int*)m = vp_cur + 1; vp_hb_lock(m); return 0;
}
static inline int vp_mutex_timedlock(char* m, char* ts) { return vp_mutex_clocklock(m, 0, ts); }

/* ------------------------------------------------------------------ rwlock (word0 = writer+1, word1 = reader bitmask) */
static inline int vp_rw_can_read(char* l) { return ((int*)l)[0] == 0; }
static inline int vp_rw_can_write(char* l) { return ((int*)l)[0] == 0 && ((int*)l)[1] == 0; }
static inline int32_t vp_rw_state_of(char* l) { return (((int*)l)[0] << 8) | ((int*)l)[1]; }   /* (writer id + 1) << 8 | reader mask */
/* bytes 8.. = per-thread count of shared holds (a thread may hold several shared locks: pthread allows it) */
static inline int vp_rw_rdlock(char* l) {
  ((uint8_t*)l)[8 + vp_cur]++;
  ((int*)l)[1] |= (1 << vp_cur); vp_hb_lock(l); return 0;
}
static inline int vp_rw_wrlock(char* l) { ((int*)l)[0] = vp_cur + 1; vp_hb_lock(l); return 0; }
static inline int vp_rw_tryrdlock(char* l) { if (!vp_rw_can_read(l)) return 16; return vp_rw_rdlock(l); }
static inline int vp_rw_trywrlock(char* l) { if (!vp_rw_can_write(l)) return 16; return vp_rw_wrlock(l); }
static inline int vp_rw_clockrdlock(char* l, int clk, char* ts) { (void)clk; (void)ts; if (!vp_rw_can_read(l)) return 110; return vp_rw_rdlock(l); }
static inline int vp_rw_clockwrlock(char* l, int clk, char* ts) { (void)clk; (void)ts; if (!vp_rw_can_write(l)) return 110; return vp_rw_wrlock(l); }
static inline int vp_rw_timedrdlock(char* l, char* ts) { return vp_rw_clockrdlock(l, 0, ts); }
static inline int vp_rw_timedwrlock(char* l, char* ts) { return vp_rw_clockwrlock(l, 0, ts); }
static inline int vp_rw_unlock(char* l) {
  vp_hb_unlock(l);
  if (((int*)l)[0] == vp_cur + 1) ((int*)l)[0] = 0;
  else {
    VP_CHECK((((int*)l)[1] & (1 << vp_cur)) != 0, "rwlock: unlock by a thread that holds neither side");
    if (((uint8_t*)l)[8 + vp_cur] > 0) ((uint8_t*)l)[8 + vp_cur]--;
    if (((uint8_t*)l)[8 + vp_cur] == 0) ((int*)l)[1] &= ~(1 << vp_cur);
  }
  return 0;
}

/* ------------------------------------------------------------------ clock: non-decreasing, otherwise arbitrary */
int64_t vp_now = 1000;
static inline int64_t vp_clock_now(void) {
  unsigned d = vp_nd_uint();
  vp_now += (int64_t)d;
  return vp_now;
}
static inline int64_t vp_deadline(char* ts) { return ((int64_t*)ts)[0] * 1000000000ll + ((int64_t*)ts)[1]; }
int vp_errno_;
static inline char* vp_errno_location(void) { return (char*)&vp_errno_; }
static inline int vp_nanosleep(char* req, char* rem) { (void)rem; int64_t d = vp_deadline(req); if (d > 0) vp_now += d; return 0; }

/* ------------------------------------------------------------------ condition variable (word0 = waiting mask, word1 = signalled mask) */
static inline void vp_cv_init(char* cv) { ((int*)cv)[0] = 0; ((int*)cv)[1] = 0; }
static inline void vp_cv_destroy(char* cv) { (void)cv; }
static inline void vp_cv_wait_begin(char* cv, char* mx) {
  VP_CHECK(*(int*)mx == vp_cur + 1, "condition_variable::wait without owning the mutex");
  vp_hb_unlock(mx);
  *(int*)mx = 0;
  vp_cvwaits_[vp_cur]++;
  ((int*)cv)[0] |= (1 << vp_cur);
  ((int*)cv)[1] &= ~(1 << vp_cur);
}
static inline int vp_cv_can_wake(char* cv, char* mx, int timed) {
  int sig = (((int*)cv)[1] >> vp_cur) & 1;
  int why = 0;
  if (!sig) {
    if (vp_spur[vp_cur] > 0 && (vp_nd_uchar() & 1)) why = 1;
    else if (timed && (vp_nd_uchar() & 1)) why = 2;
    else return 0;
  }
  if (*(int*)mx != 0) return 0;
  if (why == 1) vp_spur[vp_cur]--;
  vp_wake_reason[vp_cur] = why;
  return 1;
}
static inline int vp_cv_wait_end(char* cv, char* mx, int timed, char* ts) {
  ((int*)cv)[0] &= ~(1 << vp_cur);
  ((int*)cv)[1] &= ~(1 << vp_cur);
  *(int*)mx = vp_cur + 1; vp_hb_lock(mx);
  if (timed && vp_wake_reason[vp_cur] == 2) {
    int64_t d = vp_deadline(ts);
    if (vp_now < d) vp_now = d;
    return 110;
  }
  return 0;
}
static inline void vp_cv_notify_all(char* cv) { ((int*)cv)[1] |= ((int*)cv)[0]; }
static inline void vp_cv_notify_one(char* cv) {
  int cand = ((int*)cv)[0] & ~((int*)cv)[1];
  if (cand) {
    int t = vp_nd_uchar();
    __CPROVER_assume(t < VP_MAXT && ((cand >> t) & 1));
    ((int*)cv)[1] |= (1 << t);
  }
}

static inline int vp_guard_can_enter(char* g);
/* is thread t, which ended its last context blocked, able to move now? (deadlock = nobody unfinished can) */
static inline int vp_enabled(int t) {
  switch (vp_blk_kind[t]) {
    case VP_B_NONE: return 1;
    case VP_B_MUTEX: return vp_mutex_free(vp_blk_a[t]);
    case VP_B_RD: return vp_rw_can_read(vp_blk_a[t]);
    case VP_B_WR: return vp_rw_can_write(vp_blk_a[t]);
    case VP_B_CV: return ((((int*)vp_blk_a[t])[1] >> t) & 1) && vp_mutex_free(vp_blk_b[t]);
    case VP_B_CVT: return vp_mutex_free(vp_blk_b[t]);
    case VP_B_YIELD: return vp_yepoch[t] != vp_epoch;
    case VP_B_TIMED: return 1;
    case VP_B_GUARD: return vp_guard_can_enter(vp_blk_a[t]);
  }
  return 1;
}

/* ------------------------------------------------------------------ heap */
static inline void vp_delete(char* p) { free(p); }
static inline void vp_delete_sized(char* p, uint64_t n) { (void)n; free(p); }
static inline void vp_unreachable_throw_i(uint32_t e) { (void)e; __CPROVER_assume(0); }
static inline void vp_unreachable_throw_p(char* e) { (void)e; __CPROVER_assume(0); }
static inline void vp_unreachable_throw_v(void) { __CPROVER_assume(0); }
static inline void vp_terminate(void) { VP_CHECK(0, "std::terminate / abort reached"); __CPROVER_assume(0); }
/* element-wise memmove for symbolic lengths (cbmc's built-in is imprecise there); loops are bounded by --unwindset */
#define VP_MEMMOVE(name, T) \
static inline void name(char* d, char* s, uint64_t n) { \
  uint64_t k = n / sizeof(T); \
  if (d == s || k == 0) return; \
  if (__CPROVER_POINTER_OBJECT(d) != __CPROVER_POINTER_OBJECT(s) || __CPROVER_POINTER_OFFSET(d) < __CPROVER_POINTER_OFFSET(s)) { \
    for (uint64_t i = 0; i < k; i++) ((T*)d)[i] = ((T*)s)[i]; \
  } else { \
    for (uint64_t i = k; i > 0; i--) ((T*)d)[i - 1] = ((T*)s)[i - 1]; \
  } \
}
#ifdef VP_NATIVE
static inline void vp_memmove_b(char* d, char* s, uint64_t n) { memmove(d, s, n); }
static inline void vp_memmove_w(char* d, char* s, uint64_t n) { memmove(d, s, n); }
static inline void vp_memmove_q(char* d, char* s, uint64_t n) { memmove(d, s, n); }
static inline void vp_memmove_p(char* d, char* s, uint64_t n) { memmove(d, s, n); }
static inline void vp_memset_b(char* d, int c, uint64_t n) { memset(d, c, n); }
#else
VP_MEMMOVE(vp_memmove_b, char)
VP_MEMMOVE(vp_memmove_w, uint32_t)
VP_MEMMOVE(vp_memmove_q, uint64_t)
VP_MEMMOVE(vp_memmove_p, char*)
static inline void vp_memset_b(char* d, int c, uint64_t n) { for (uint64_t i = 0; i < n; i++) d[i] = (char)c; }
#endif
static inline void vp_glibcxx_assert_fail(void) { VP_CHECK(0, "libstdc++ container precondition violated (_GLIBCXX_ASSERTIONS)"); __CPROVER_assume(0); }
static inline int vp_memcmp(char* a, char* b, uint64_t n) { return memcmp(a, b, n); }
static inline uint64_t vp_strlen(char* a) { return strlen(a); }
static inline int vp_strcmp(char* a, char* b) { return strcmp(a, b); }
/* std::string::_M_create(size_type& capacity, size_type old_capacity): libstdc++ growth policy, fixed-size block (cf. VP_DYN_ALLOC_MAX) */
static inline char* vp_string_create(char* self, char* cap, uint64_t old) {
  (void)self; uint64_t c = *(uint64_t*)cap;
  if (c > old && c < 2 * old) c = 2 * old;
  __CPROVER_assume(c + 1 <= VP_DYN_ALLOC_MAX);
  *(uint64_t*)cap = c;
  char* p = (char*)malloc(VP_DYN_ALLOC_MAX); __CPROVER_assume(p != 0); return p;
}
static inline char* vp_memchr(char* a, int c, uint64_t n) { return (char*)memchr(a, c, n); }
static inline uint32_t vp_ctlz(uint64_t x, int n) { uint32_t c = 0; for (int i = n - 1; i >= 0; i--) { if ((x >> i) & 1) break; c++; } return c; }
static inline uint32_t vp_cttz(uint64_t x, int n) { uint32_t c = 0; for (int i = 0; i < n; i++) { if ((x >> i) & 1) break; c++; } return c; }
static inline uint32_t vp_ctpop(uint64_t x, int n) { uint32_t c = 0; for (int i = 0; i < n; i++) c += (x >> i) & 1; return c; }

/* ------------------------------------------------------------------ function-local statics */
/* guard byte 0 = initialised, byte 1 = initialisation in progress (owner id + 1): a second thread waits, as the ABI requires */
static inline int vp_guard_can_enter(char* g) { return ((uint8_t*)g)[0] != 0 || ((uint8_t*)g)[1] == 0; }
static inline int vp_cxa_guard_acquire(char* g) { if (((uint8_t*)g)[0]) return 0; ((uint8_t*)g)[1] = (uint8_t)(vp_cur + 1); return 1; }
static inline void vp_cxa_guard_release(char* g) { ((uint8_t*)g)[0] = 1; ((uint8_t*)g)[1] = 0; }
static inline int vp_cxa_atexit(char* f, char* a, char* d) { (void)f; (void)a; (void)d; return 0; }

/* ------------------------------------------------------------------ exceptions (E1 lowering) */
struct vp_exc_s { int pending; char* obj; char* tinfo; };
struct vp_exc_s vp_exc;
#define VP_CAUGHT_MAX 4
struct vp_exc_s vp_caught[VP_MAXT][VP_CAUGHT_MAX];
int vp_ncaught[VP_MAXT];
int vp_throw_count;              /* number of C++ throws executed (evidence / witnesses) */
/* constructors of the std::logic_error / runtime_error family (libstdc++.so): the message is not modelled */
static inline void vp_exc_ctor(char* self, char* what) { (void)self; (void)what; }
static inline char* vp_cxa_allocate_exception(uint64_t n) { char* p = (char*)malloc(n ? n : 1); __CPROVER_assume(p != 0); return p; }
static inline void vp_cxa_free_exception(char* p) { (void)p; }
static inline void vp_cxa_throw(char* obj, char* tinfo, char* dtor) {
  (void)dtor; vp_exc.pending = 1; vp_exc.obj = obj; vp_exc.tinfo = tinfo; vp_throw_count++;
}
static inline char* vp_cxa_begin_catch(char* obj) {
  int n = vp_ncaught[vp_cur];
  VP_CHECK(n < VP_CAUGHT_MAX, "model bound: nested catch depth");
  vp_caught[vp_cur][n].obj = obj; vp_caught[vp_cur][n].tinfo = vp_exc.tinfo; vp_caught[vp_cur][n].pending = 0;
  vp_ncaught[vp_cur] = n + 1;
  return obj;
}
static inline void vp_cxa_end_catch(void) { if (vp_ncaught[vp_cur] > 0) vp_ncaught[vp_cur]--; }
static inline void vp_cxa_rethrow(void) {
  int n = vp_ncaught[vp_cur];
  VP_CHECK(n > 0, "rethrow outside a catch handler");
  vp_exc.pending = 1; vp_exc.obj = vp_caught[vp_cur][n - 1].obj; vp_exc.tinfo = vp_caught[vp_cur][n - 1].tinfo;
}
/* std::exception_ptr = { void* } ; exception objects are never freed by the model */
#define VP_EPTR_MAX 4
char* vp_eptr_obj[VP_EPTR_MAX]; char* vp_eptr_ti[VP_EPTR_MAX]; int vp_eptr_n;
static inline void vp_eptr_note_(char* obj, char* ti) {
  for (int i = 0; i < VP_EPTR_MAX; i++) if (i < vp_eptr_n && vp_eptr_obj[i] == obj) return;
  VP_CHECK(vp_eptr_n < VP_EPTR_MAX, "model bound: exception_ptr table");
  if (vp_eptr_n < VP_EPTR_MAX) { vp_eptr_obj[vp_eptr_n] = obj; vp_eptr_ti[vp_eptr_n] = ti; vp_eptr_n++; }
}
/* std::rethrow_exception(exception_ptr): the class is passed by invisible reference */
static inline void vp_rethrow_exception(char* ep) {
  char* obj = *(char**)ep; char* ti = 0;
  for (int i = 0; i < VP_EPTR_MAX; i++) if (i < vp_eptr_n && vp_eptr_obj[i] == obj) ti = vp_eptr_ti[i];
  vp_exc.pending = 1; vp_exc.obj = obj; vp_exc.tinfo = ti; vp_throw_count++;
}
static inline void vp_current_exception(char* ret) {
  int n = vp_ncaught[vp_cur];
  *(char**)ret = n > 0 ? vp_caught[vp_cur][n - 1].obj : (char*)0;
  if (n > 0) vp_eptr_note_(vp_caught[vp_cur][n - 1].obj, vp_caught[vp_cur][n - 1].tinfo);
}
static inline void vp_noop_p(char* p) { (void)p; }
static inline void vp_eptr_swap(char* a, char* b) { char* t = *(char**)a; *(char**)a = *(char**)b; *(char**)b = t; }
static inline void vp_eptr_addref(char* p) { (void)p; }
static inline void vp_eptr_release(char* p) { (void)p; }
static inline void vp_uncaught(void) { VP_CHECK(0, "uncaught exception leaves a thread entry function"); }
static inline void vp_throw_now(int32_t code);   /* defined by the generated file (needs the int typeinfo) */


/* ------------------------------------------------------------------ linearizability of a single register (C15)
 * history of <= VP_HN completed operations, stamps from a global counter; values from a small domain 0..VP_HV-1.
 * R[mask] = set of register values possible after linearising exactly the operations in mask (subset DP). */
#ifndef VP_HN
#define VP_HN 6
#endif
#define VP_HV 4
enum { VP_OP_LOAD, VP_OP_STORE, VP_OP_XCHG, VP_OP_CAS };
int vp_h_n; unsigned vp_h_clock;
int vp_h_kind[VP_HN], vp_h_a1[VP_HN], vp_h_a2[VP_HN], vp_h_r1[VP_HN], vp_h_r2[VP_HN], vp_h_done[VP_HN];
unsigned vp_h_inv[VP_HN], vp_h_resp[VP_HN];
static inline int32_t vp_hist_begin(int32_t kind, int32_t a1, int32_t a2) {
  int i = vp_h_n++;
  VP_CHECK(i < VP_HN, "model bound: history length");
  vp_h_kind[i] = kind; vp_h_a1[i] = a1; vp_h_a2[i] = a2; vp_h_inv[i] = ++vp_h_clock; vp_h_done[i] = 0;
  return i;
}
static inline void vp_hist_end(int32_t i, int32_t r1, int32_t r2) { vp_h_r1[i] = r1; vp_h_r2[i] = r2; vp_h_resp[i] = ++vp_h_clock; vp_h_done[i] = 1; }
/* LOAD: r1 = value read.  STORE: a1 = value.  XCHG: a1 = new value, r1 = returned old value.
   CAS: a1 = expected, a2 = desired, r1 = success flag, r2 = value reported in 'expected' afterwards. */
static inline void vp_lin_check(int32_t init) {
  int n = vp_h_n;
  unsigned char R[1 << VP_HN];
  for (int m = 0; m < (1 << VP_HN); m++) R[m] = 0;
  R[0] = (unsigned char)(1u << init);
  for (int m = 0; m < (1 << VP_HN); m++) {
    for (int i = 0; i < VP_HN; i++) {
      if (i >= n || ((m >> i) & 1)) continue;
      int ok = 1;   /* every operation that responded before i was invoked must already be in m */
      for (int j = 0; j < VP_HN; j++)
        if (j < n && j != i && !((m >> j) & 1) && vp_h_resp[j] < vp_h_inv[i]) ok = 0;
      if (!ok) continue;
      for (int v = 0; v < VP_HV; v++) {
        if (!((R[m] >> v) & 1)) continue;
        int nv = v, good = 0;
        switch (vp_h_kind[i]) {
          case VP_OP_LOAD: good = (vp_h_r1[i] == v); break;
          case VP_OP_STORE: good = 1; nv = vp_h_a1[i]; break;
          case VP_OP_XCHG: good = (vp_h_r1[i] == v); nv = vp_h_a1[i]; break;
          case VP_OP_CAS:
            if (v == vp_h_a1[i]) { good = (vp_h_r1[i] == 1); nv = vp_h_a2[i]; }
            else good = (vp_h_r1[i] == 0 && vp_h_r2[i] == v);
            break;
        }
        if (good && nv >= 0 && nv < VP_HV) R[m | (1 << i)] |= (unsigned char)(1u << nv);
      }
    }
  }
  VP_CHECK(n <= VP_HN && R[(1 << n) - 1] != 0, "history is not linearizable as a single atomic register");
}


/* ------------------------------------------------------------------ object / allocation tables (C13, C16): exactly-once bookkeeping */
#define VP_TAB 8
char* vp_tab_p[2][VP_TAB]; int vp_tab_used[2][VP_TAB]; int vp_tab_total[2];
static inline int vp_tab_find(int t, char* p) { for (int i = 0; i < VP_TAB; i++) if (vp_tab_used[t][i] && vp_tab_p[t][i] == p) return i; return -1; }
/* t = 0: constructed objects, t = 1: allocated blocks */
static inline void vp_tab_add(int32_t t, char* p) {
  VP_CHECK(p != 0, "table: construct/allocate at null");
  VP_CHECK(vp_tab_find(t, p) < 0, "table: object constructed twice / block allocated twice at the same address");
  int k = -1;
  for (int i = 0; i < VP_TAB; i++) if (!vp_tab_used[t][i]) { k = i; break; }
  VP_CHECK(k >= 0, "model bound: table full");
  if (k >= 0) { vp_tab_used[t][k] = 1; vp_tab_p[t][k] = p; }
  vp_tab_total[t]++;
}
static inline void vp_tab_del(int32_t t, char* p) {
  int k = vp_tab_find(t, p);
  if (t == 0) VP_CHECK(k >= 0, "destroy of an object that is not live (never constructed, null, or destroyed twice)");
  else VP_CHECK(k >= 0, "deallocate of a block that is not allocated (null, foreign, or freed twice)");
  if (k >= 0) vp_tab_used[t][k] = 0;
}
static inline int32_t vp_tab_count(int32_t t) { int c = 0; for (int i = 0; i < VP_TAB; i++) c += vp_tab_used[t][i]; return c; }
static inline int32_t vp_tab_has(int32_t t, char* p) { return vp_tab_find(t, p) >= 0; }

/* ------------------------------------------------------------------ std::map internals that live in libstdc++.so (tree.cc): unbalanced
 * binary-search-tree versions with the same in-order / iterator / erase-returns-the-unlinked-node contract (no recolouring, no rotations).
 * _Rb_tree_node_base = { int color; node* parent; node* left; node* right; }; header.parent = root, .left = leftmost, .right = rightmost. */
#define RB_PARENT(n) (*(char**)((n) + 8))
#define RB_LEFT(n) (*(char**)((n) + 16))
#define RB_RIGHT(n) (*(char**)((n) + 24))
#define RB_COLOR(n) (*(int*)(n))
static inline void vp_rb_insert(uint8_t insert_left, char* x, char* p, char* header) {
  RB_PARENT(x) = p; RB_LEFT(x) = 0; RB_RIGHT(x) = 0; RB_COLOR(x) = 1;   /* every real node black: only the header is red (decrement relies on it) */
  if (insert_left) {
    RB_LEFT(p) = x;
    if (p == header) { RB_PARENT(header) = x; RB_RIGHT(header) = x; }
    else if (p == RB_LEFT(header)) RB_LEFT(header) = x;
  } else {
    RB_RIGHT(p) = x;
    if (p == RB_RIGHT(header)) RB_RIGHT(header) = x;
  }
}
static inline char* vp_rb_increment(char* x) {
  if (RB_RIGHT(x) != 0) {
    x = RB_RIGHT(x);
    while (RB_LEFT(x) != 0) x = RB_LEFT(x);
  } else {
    char* y = RB_PARENT(x);
    while (x == RB_RIGHT(y)) { x = y; y = RB_PARENT(y); }
    if (RB_RIGHT(x) != y) x = y;
  }
  return x;
}
static inline char* vp_rb_decrement(char* x) {
  if (RB_COLOR(x) == 0 && RB_PARENT(x) != 0 && RB_PARENT(RB_PARENT(x)) == x) return RB_RIGHT(x);   /* --end() */
  if (RB_LEFT(x) != 0) {
    char* y = RB_LEFT(x);
    while (RB_RIGHT(y) != 0) y = RB_RIGHT(y);
    x = y;
  } else {
    char* y = RB_PARENT(x);
    while (x == RB_LEFT(y)) { x = y; y = RB_PARENT(y); }
    x = y;
  }
  return x;
}
static inline char* vp_rb_erase(char* z, char* header) {
  char* y = z; char* x = 0;
  if (RB_LEFT(y) == 0) x = RB_RIGHT(y);
  else if (RB_RIGHT(y) == 0) x = RB_LEFT(y);
  else { y = RB_RIGHT(y); while (RB_LEFT(y) != 0) y = RB_LEFT(y); x = RB_RIGHT(y); }
  if (y != z) {
    RB_PARENT(RB_LEFT(z)) = y; RB_LEFT(y) = RB_LEFT(z);
    if (y != RB_RIGHT(z)) {
      if (x) RB_PARENT(x) = RB_PARENT(y);
      RB_LEFT(RB_PARENT(y)) = x;
      RB_RIGHT(y) = RB_RIGHT(z); RB_PARENT(RB_RIGHT(z)) = y;
    }
    if (RB_PARENT(header) == z) RB_PARENT(header) = y;
    else if (RB_LEFT(RB_PARENT(z)) == z) RB_LEFT(RB_PARENT(z)) = y;
    else RB_RIGHT(RB_PARENT(z)) = y;
    RB_PARENT(y) = RB_PARENT(z);
    y = z;
  } else {
    if (x) RB_PARENT(x) = RB_PARENT(y);
    if (RB_PARENT(header) == z) RB_PARENT(header) = x;
    else if (RB_LEFT(RB_PARENT(z)) == z) RB_LEFT(RB_PARENT(z)) = x;
    else RB_RIGHT(RB_PARENT(z)) = x;
    if (RB_LEFT(header) == z) {
      if (RB_RIGHT(z) == 0) RB_LEFT(header) = RB_PARENT(z);
      else { char* m = x; while (RB_LEFT(m) != 0) m = RB_LEFT(m); RB_LEFT(header) = m; }
    }
    if (RB_RIGHT(header) == z) {
      if (RB_LEFT(z) == 0) RB_RIGHT(header) = RB_PARENT(z);
      else { char* m = x; while (RB_RIGHT(m) != 0) m = RB_RIGHT(m); RB_RIGHT(header) = m; }
    }
  }
  return y;
}

#ifndef VP_HB
static inline void vp_hb_data_write(int32_t loc) { (void)loc; }
static inline void vp_hb_data_read(int32_t loc) { (void)loc; }
#endif

#endif
