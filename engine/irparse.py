#!/usr/bin/env python3
"""LLVM-14 textual IR (typed pointers) -> small Python AST.

Only the subset that clang++-14 -O1 emits for the harnesses under /verif/harness
is accepted; anything else raises Unsupported so that the check stops with
"encoder refuses" instead of guessing (DESIGN.md section 5)."""
import re, collections


class Unsupported(Exception):
    pass


# ---------------------------------------------------------------- types
class T:
    pass


class IntT(T):
    def __init__(s, n): s.n = n
    def __repr__(s): return f"i{s.n}"


class PtrT(T):
    def __init__(s, to): s.to = to
    def __repr__(s): return f"{s.to}*"


class ArrT(T):
    def __init__(s, n, el): s.n, s.el = n, el
    def __repr__(s): return f"[{s.n} x {s.el}]"


class StructT(T):
    def __init__(s, fields, packed=False): s.fields, s.packed = fields, packed
    def __repr__(s): return ("<{" if s.packed else "{") + ",".join(map(repr, s.fields)) + ("}>" if s.packed else "}")


class NamedT(T):
    def __init__(s, name): s.name = name
    def __repr__(s): return s.name


class VoidT(T):
    def __repr__(s): return "void"


class FnT(T):
    def __init__(s, ret, params, vararg=False): s.ret, s.params, s.vararg = ret, params, vararg
    def __repr__(s): return f"{s.ret}({','.join(map(repr, s.params))}{',...' if s.vararg else ''})"


class OtherT(T):
    def __init__(s, n): s.n = n
    def __repr__(s): return s.n


I1, I8, I32, I64 = IntT(1), IntT(8), IntT(32), IntT(64)
I8P = PtrT(I8)

TOK = re.compile(r'\s*(%"(?:[^"\\]|\\.)*"|%[\w.$-]+|@"(?:[^"\\]|\\.)*"|@[\w.$-]+|c"(?:[^"\\]|\\.)*"|"(?:[^"\\]|\\.)*"|<\{|\}>|\.\.\.|[\[\]{}()<>*,=]|-?\d+\.\d+(?:e[+-]?\d+)?|0x[0-9A-Fa-f]+|-?\d+|[A-Za-z_][\w.]*|![\w.]*|#\d+)')


def tokenize(s):
    out, i = [], 0
    n = len(s)
    while i < n:
        m = TOK.match(s, i)
        if not m:
            if s[i:].strip() == "": break
            raise Unsupported("tokenize: " + s[i:i + 60])
        out.append(m.group(1)); i = m.end()
    return out


class P:
    def __init__(s, toks): s.t, s.i = toks, 0
    def peek(s, k=0): return s.t[s.i + k] if s.i + k < len(s.t) else None
    def next(s):
        if s.i >= len(s.t): raise Unsupported("unexpected end: " + ' '.join(s.t))
        v = s.t[s.i]; s.i += 1; return v
    def eat(s, x):
        if s.peek() == x: s.i += 1; return True
        return False
    def expect(s, x):
        v = s.next()
        if v != x: raise Unsupported(f"expected {x} got {v} in: {' '.join(s.t)}")
    def done(s): return s.i >= len(s.t)


class Module:
    def __init__(s):
        s.named = {}        # %name -> T
        s.globs = collections.OrderedDict()   # @name -> Glob
        s.funcs = collections.OrderedDict()   # @name -> Func
        s.decls = {}        # @name -> FnT
        s.ctors = []

    # ---- layout (x86-64 SysV data layout)
    def resolve(s, t):
        while isinstance(t, NamedT):
            if t.name not in s.named: raise Unsupported("unknown type " + t.name)
            t = s.named[t.name]
        return t

    def sizeof(s, t):
        t = s.resolve(t)
        if isinstance(t, IntT):
            b = (t.n + 7) // 8; z = 1
            while z < b: z *= 2
            return z
        if isinstance(t, PtrT): return 8
        if isinstance(t, ArrT): return t.n * s.sizeof(t.el)
        if isinstance(t, StructT):
            off = 0
            for f in t.fields:
                a = 1 if t.packed else s.alignof(f)
                off = (off + a - 1) // a * a + s.sizeof(f)
            a = 1 if t.packed else s.alignof(t)
            return (off + a - 1) // a * a
        if isinstance(t, OtherT):
            if t.n == 'double': return 8
            if t.n == 'float': return 4
        raise Unsupported("sizeof " + repr(t))

    def alignof(s, t):
        t = s.resolve(t)
        if isinstance(t, IntT): return min(s.sizeof(t), 8) if t.n <= 64 else 16
        if isinstance(t, PtrT): return 8
        if isinstance(t, ArrT): return s.alignof(t.el)
        if isinstance(t, StructT): return 1 if t.packed else max([s.alignof(f) for f in t.fields] + [1])
        if isinstance(t, OtherT):
            if t.n == 'double': return 8
            if t.n == 'float': return 4
        raise Unsupported("alignof " + repr(t))

    def field_off(s, t, k):
        t = s.resolve(t); off = 0
        for i, f in enumerate(t.fields):
            a = 1 if t.packed else s.alignof(f)
            off = (off + a - 1) // a * a
            if i == k: return off
            off += s.sizeof(f)
        raise IndexError(k)


def parse_type(p):
    t = p.next()
    if t == 'void': base = VoidT()
    elif re.fullmatch(r'i\d+', t): base = IntT(int(t[1:]))
    elif t.startswith('%'): base = NamedT(t)
    elif t == '[':
        n = int(p.next()); p.expect('x'); el = parse_type(p); p.expect(']'); base = ArrT(n, el)
    elif t == '<':
        raise Unsupported("vector type in: " + ' '.join(p.t))
    elif t == '{' or t == '<{':
        fs = []
        end = '}' if t == '{' else '}>'
        if not p.eat(end):
            while True:
                fs.append(parse_type(p))
                if p.eat(end): break
                p.expect(',')
        base = StructT(fs, t == '<{')
    elif t in ('float', 'double', 'metadata', 'label', 'token', 'x86_fp80', 'opaque'): base = OtherT(t)
    else: raise Unsupported("type? " + t + " in " + ' '.join(p.t))
    while True:
        if p.peek() == '*': p.next(); base = PtrT(base)
        elif p.peek() == '(':
            p.next(); ps = []; va = False
            if not p.eat(')'):
                while True:
                    if p.peek() == '...': p.next(); va = True
                    else:
                        ps.append(parse_type(p)); strip_attrs(p)
                    if p.eat(')'): break
                    p.expect(',')
            base = FnT(base, ps, va)
        else: break
    return base


ATTR_WORDS = {'noundef', 'nonnull', 'noalias', 'nocapture', 'readonly', 'readnone', 'writeonly', 'signext', 'zeroext',
              'returned', 'immarg', 'nofree', 'inreg', 'nest', 'swiftself', 'noreturn', 'nounwind', 'dso_local',
              'local_unnamed_addr', 'unnamed_addr', 'internal', 'linkonce_odr', 'weak_odr', 'external', 'private',
              'available_externally', 'hidden', 'weak', 'tail', 'musttail', 'notail', 'fastcc', 'inbounds', 'volatile',
              'nsw', 'nuw', 'exact', 'thread_local', 'common', 'appending', 'extern_weak', 'mustprogress', 'linkonce',
              'protected', 'default', 'dso_preemptable', 'ccc', 'coldcc', 'nobuiltin', 'builtin', 'cold', 'willreturn',
              'nosync', 'norecurse', 'argmemonly', 'inaccessiblememonly', 'speculatable', 'uwtable', 'noinline',
              'optnone', 'alwaysinline', 'inlinehint', 'ssp', 'sspstrong', 'nocallback', 'nonlazybind', 'minsize',
              'optsize', 'naked', 'returns_twice', 'safestack', 'noduplicate', 'convergent', 'writable', 'swifterror',
              'swiftasync', 'noimplicitfloat', 'noredzone', 'strictfp', 'nocf_check', 'shadowcallstack', 'sanitize_address',
              'inalloca', 'preallocated'}
ATTR_ARG = {'align', 'dereferenceable', 'dereferenceable_or_null', 'sret', 'byval', 'addrspace', 'section', 'comdat',
            'allocsize', 'byref', 'elementtype', 'alignstack', 'prefix', 'prologue', 'gc', 'vscale_range'}


def strip_attrs(p):
    """Skip parameter / return / function attributes. Returns the set of attribute words seen."""
    seen = set()
    while True:
        t = p.peek()
        if t is None: break
        if t in ATTR_WORDS: seen.add(p.next()); continue
        if t in ATTR_ARG:
            p.next(); seen.add(t)
            if p.peek() == '(':
                d = 0
                while True:
                    x = p.next()
                    if x == '(': d += 1
                    if x == ')':
                        d -= 1
                        if d == 0: break
            elif t == 'align': p.next()
            continue
        if t.startswith('#'): p.next(); continue
        if t.startswith('"') and p.peek(1) == '=': p.next(); p.next(); p.next(); continue
        break
    return seen


# ---------------------------------------------------------------- values
# ('reg', name) ('glob', name) ('int', v) ('null',) ('undef',) ('zero',)
# ('cexpr', op, ...) ('agg', kind, [(ty, val)]) ('str', bytes) ('fp', text)
CEXPR_OPS = ('getelementptr', 'bitcast', 'ptrtoint', 'inttoptr', 'trunc', 'zext', 'sext', 'add', 'sub', 'mul', 'and',
             'or', 'xor', 'shl', 'lshr', 'ashr', 'icmp', 'select', 'addrspacecast')


def parse_value(p, ty):
    t = p.next()
    if t.startswith('%'): return ('reg', t)
    if t.startswith('@'): return ('glob', t)
    if t == 'null': return ('null',)
    if t in ('undef', 'poison'): return ('undef',)
    if t == 'zeroinitializer': return ('zero',)
    if t == 'true': return ('int', 1)
    if t == 'false': return ('int', 0)
    if t == 'none': return ('undef',)
    if re.fullmatch(r'-?\d+', t): return ('int', int(t))
    if re.fullmatch(r'0x[0-9A-Fa-f]+', t) or re.fullmatch(r'-?\d+\.\d+(?:e[+-]?\d+)?', t): return ('fp', t)
    if t.startswith('c"'): return ('str', decode_cstr(t[2:-1]))
    if t in ('{', '<{', '['):
        end = {'{': '}', '<{': '}>', '[': ']'}[t]
        items = []
        if not p.eat(end):
            while True:
                ety = parse_type(p); items.append((ety, parse_value(p, ety)))
                if p.eat(end): break
                p.expect(',')
        return ('agg', t, items)
    if t in CEXPR_OPS:
        if t == 'getelementptr':
            inb = p.eat('inbounds'); p.expect('(')
            bt = parse_type(p); p.expect(',')
            pt = parse_type(p); base = parse_value(p, pt)
            idx = []
            while p.eat(','):
                p.eat('inrange')
                it = parse_type(p); idx.append((it, parse_value(p, it)))
            p.expect(')')
            return ('cexpr', 'getelementptr', bt, pt, base, idx)
        if t in ('bitcast', 'ptrtoint', 'inttoptr', 'trunc', 'zext', 'sext', 'addrspacecast'):
            p.expect('(')
            ft = parse_type(p); v = parse_value(p, ft); p.expect('to'); tt = parse_type(p); p.expect(')')
            return ('cexpr', t, ft, v, tt)
        if t in ('add', 'sub', 'mul', 'and', 'or', 'xor', 'shl', 'lshr', 'ashr'):
            while p.peek() in ('nsw', 'nuw', 'exact'): p.next()
            p.expect('(')
            t1 = parse_type(p); a = parse_value(p, t1); p.expect(','); t2 = parse_type(p); b = parse_value(p, t2); p.expect(')')
            return ('cexpr', t, t1, a, b)
        if t == 'icmp':
            pred = p.next(); p.expect('(')
            t1 = parse_type(p); a = parse_value(p, t1); p.expect(','); t2 = parse_type(p); b = parse_value(p, t2); p.expect(')')
            return ('cexpr', 'icmp', pred, t1, a, b)
        raise Unsupported("constant expression " + t)
    raise Unsupported("value? " + t + " :: " + ' '.join(p.t))


def decode_cstr(s):
    out = bytearray(); i = 0
    while i < len(s):
        if s[i] == '\\':
            if s[i + 1] == '\\': out.append(92); i += 2
            else: out.append(int(s[i + 1:i + 3], 16)); i += 3
        else: out.append(ord(s[i])); i += 1
    return bytes(out)


# ---------------------------------------------------------------- instructions
class Ins:
    __slots__ = ('dst', 'op', 'ty', 'a', 'raw', 'attrs')
    def __init__(s, dst, op, ty, a, raw):
        s.dst, s.op, s.ty, s.a, s.raw = dst, op, ty, a, raw
        s.attrs = {}
    def __repr__(s): return f"<{s.dst} = {s.op} {s.a}>"


class Func:
    def __init__(s):
        s.name = None; s.params = []; s.blocks = collections.OrderedDict(); s.ret = None
        s.vararg = False; s.entry = None


class Glob:
    def __init__(s, name, ty, init, const, external, raw):
        s.name, s.ty, s.init, s.const, s.external, s.raw = name, ty, init, const, external, raw


BINOPS = ('add', 'sub', 'mul', 'and', 'or', 'xor', 'shl', 'lshr', 'ashr', 'udiv', 'sdiv', 'urem', 'srem')
CASTS = ('zext', 'sext', 'trunc', 'bitcast', 'ptrtoint', 'inttoptr', 'addrspacecast')
ORDERS = ('unordered', 'monotonic', 'acquire', 'release', 'acq_rel', 'seq_cst')


def clean(line):
    # drop comments (not inside strings: harness IR has no ';' inside c"..." that matter for instructions)
    if ';' in line and '"' not in line: line = line[:line.index(';')]
    elif ';' in line:
        # careful scan
        out = []; q = False; i = 0
        while i < len(line):
            ch = line[i]
            if ch == '"': q = not q
            if ch == ';' and not q: break
            out.append(ch); i += 1
        line = ''.join(out)
    line = re.sub(r'(,\s*![\w.]+\s+![\w.]+)+\s*$', '', line.rstrip())
    line = re.sub(r'(,\s*![\w.]+\s+!\{[^}]*\})+\s*$', '', line.rstrip())
    return line.strip()


def parse_ret_fn_type(p):
    """type in a call: either the return type or a full function (pointer) type for varargs."""
    t = parse_type(p)
    if isinstance(t, PtrT) and isinstance(t.to, FnT): return t.to.ret, t.to
    if isinstance(t, FnT): return t.ret, t
    return t, None


def parse_ins(text):
    raw = text
    s = clean(text)
    m = re.match(r'(%"(?:[^"\\]|\\.)*"|%[\w.$-]+) = (.*)$', s)
    dst = None
    if m: dst, s = m.group(1), m.group(2)
    p = P(tokenize(s))
    op = p.next()
    while op in ('tail', 'musttail', 'notail'): op = p.next()
    if op in BINOPS:
        while p.peek() in ('nsw', 'nuw', 'exact'): p.next()
        ty = parse_type(p); a = parse_value(p, ty); p.expect(','); b = parse_value(p, ty)
        return Ins(dst, 'bin', ty, (op, a, b), raw)
    if op == 'icmp':
        pred = p.next(); ty = parse_type(p); a = parse_value(p, ty); p.expect(','); b = parse_value(p, ty)
        return Ins(dst, 'icmp', I1, (pred, ty, a, b), raw)
    if op in CASTS:
        ft = parse_type(p); v = parse_value(p, ft); p.expect('to'); tt = parse_type(p)
        return Ins(dst, 'cast', tt, (op, ft, v), raw)
    if op == 'freeze':
        ty = parse_type(p); v = parse_value(p, ty)
        return Ins(dst, 'freeze', ty, (v,), raw)
    if op == 'select':
        ct = parse_type(p); c = parse_value(p, ct); p.expect(',')
        ty = parse_type(p); a = parse_value(p, ty); p.expect(','); parse_type(p); b = parse_value(p, ty)
        return Ins(dst, 'select', ty, (c, a, b), raw)
    if op == 'getelementptr':
        p.eat('inbounds'); bt = parse_type(p); p.expect(','); pt = parse_type(p); base = parse_value(p, pt)
        idx = []
        while p.eat(','):
            it = parse_type(p); idx.append((it, parse_value(p, it)))
        return Ins(dst, 'gep', I8P, (bt, base, idx), raw)
    if op == 'alloca':
        p.eat('inalloca'); ty = parse_type(p); cnt = None
        if p.eat(','):
            if p.peek() == 'align': p.next(); p.next()
            else:
                ct = parse_type(p); cnt = parse_value(p, ct)
                if p.eat(','): p.expect('align'); p.next()
        return Ins(dst, 'alloca', I8P, (ty, cnt), raw)
    if op == 'load':
        atomic = p.eat('atomic'); p.eat('volatile'); ty = parse_type(p); p.expect(','); pt = parse_type(p); ptr = parse_value(p, pt)
        order = None
        if atomic:
            if p.peek() == 'syncscope': raise Unsupported("syncscope")
            order = p.next()
            if order not in ORDERS: raise Unsupported("load order " + order)
        return Ins(dst, 'load', ty, (ptr, order), raw)
    if op == 'store':
        atomic = p.eat('atomic'); p.eat('volatile'); ty = parse_type(p); v = parse_value(p, ty); p.expect(','); pt = parse_type(p); ptr = parse_value(p, pt)
        order = None
        if atomic:
            order = p.next()
            if order not in ORDERS: raise Unsupported("store order " + order)
        return Ins(None, 'store', ty, (v, ptr, order), raw)
    if op == 'atomicrmw':
        p.eat('volatile'); rop = p.next(); pt = parse_type(p); ptr = parse_value(p, pt); p.expect(','); ty = parse_type(p); v = parse_value(p, ty)
        order = p.next()
        if order not in ORDERS: raise Unsupported("rmw order " + order)
        return Ins(dst, 'rmw', ty, (rop, ptr, v, order), raw)
    if op == 'cmpxchg':
        weak = p.eat('weak'); p.eat('volatile'); pt = parse_type(p); ptr = parse_value(p, pt); p.expect(',')
        ty = parse_type(p); e = parse_value(p, ty); p.expect(','); parse_type(p); n = parse_value(p, ty)
        o1 = p.next(); o2 = p.next()
        if o1 not in ORDERS or o2 not in ORDERS: raise Unsupported("cmpxchg order")
        return Ins(dst, 'cas', StructT([ty, I1]), (ptr, ty, e, n, o1, o2, weak), raw)
    if op == 'fence':
        if p.peek() == 'syncscope': raise Unsupported("syncscope")
        return Ins(None, 'fence', VoidT(), (p.next(),), raw)
    if op == 'extractvalue':
        ty = parse_type(p); v = parse_value(p, ty); idxs = []
        while p.eat(','): idxs.append(int(p.next()))
        return Ins(dst, 'extractvalue', None, (ty, v, idxs), raw)
    if op == 'insertvalue':
        ty = parse_type(p); v = parse_value(p, ty); p.expect(','); et = parse_type(p); ev = parse_value(p, et); idxs = []
        while p.eat(','): idxs.append(int(p.next()))
        return Ins(dst, 'insertvalue', ty, (v, et, ev, idxs), raw)
    if op == 'phi':
        ty = parse_type(p); inc = []
        while not p.done():
            p.expect('['); v = parse_value(p, ty); p.expect(','); pred = p.next(); p.expect(']'); p.eat(',')
            inc.append((v, pred[1:]))
        return Ins(dst, 'phi', ty, (inc,), raw)
    if op == 'br':
        if p.peek() == 'label':
            p.next(); return Ins(None, 'br', VoidT(), (None, p.next()[1:], None), raw)
        ct = parse_type(p); c = parse_value(p, ct); p.expect(','); p.expect('label'); a = p.next(); p.expect(','); p.expect('label'); b = p.next()
        return Ins(None, 'br', VoidT(), (c, a[1:], b[1:]), raw)
    if op == 'switch':
        ty = parse_type(p); v = parse_value(p, ty); p.expect(','); p.expect('label'); dflt = p.next()[1:]; p.expect('[')
        cases = []
        while not p.eat(']'):
            ct = parse_type(p); cv = parse_value(p, ct); p.expect(','); p.expect('label'); cases.append((cv, p.next()[1:]))
        return Ins(None, 'switch', VoidT(), (ty, v, dflt, cases), raw)
    if op == 'ret':
        ty = parse_type(p)
        v = None if isinstance(ty, VoidT) else parse_value(p, ty)
        return Ins(None, 'ret', ty, (v,), raw)
    if op == 'unreachable': return Ins(None, 'unreachable', VoidT(), (), raw)
    if op == 'resume':
        ty = parse_type(p); v = parse_value(p, ty)
        return Ins(None, 'resume', ty, (v,), raw)
    if op == 'landingpad':
        ty = parse_type(p); cleanup = False; clauses = []
        while not p.done():
            k = p.next()
            if k == 'cleanup': cleanup = True
            elif k in ('catch', 'filter'):
                ct = parse_type(p); clauses.append((k, ct, parse_value(p, ct)))
            else: raise Unsupported("landingpad clause " + k)
        return Ins(dst, 'landingpad', ty, (cleanup, clauses), raw)
    if op in ('call', 'invoke'):
        pre = strip_attrs(p)
        rty, fnty = parse_ret_fn_type(p)
        callee = parse_value(p, None)
        p.expect('(')
        args = []
        while not p.eat(')'):
            aty = parse_type(p); aattrs = strip_attrs(p)
            if isinstance(aty, OtherT) and aty.n == 'metadata':
                while p.peek() not in (',', ')'): p.next()
                args.append((aty, ('undef',), aattrs))
            else:
                args.append((aty, parse_value(p, aty), aattrs))
            p.eat(',')
        post = strip_attrs(p)
        normal = unwind = None
        if op == 'invoke':
            p.expect('to'); p.expect('label'); normal = p.next()[1:]; p.expect('unwind'); p.expect('label'); unwind = p.next()[1:]
        i = Ins(dst, 'call', rty, (callee, args, normal, unwind, fnty), raw)
        return i
    raise Unsupported("instruction: " + raw.strip())


def parse_module(text):
    M = Module()
    lines = text.split('\n'); i = 0
    while i < len(lines):
        ln = lines[i]
        m = re.match(r'(%"(?:[^"\\]|\\.)*"|%[\w.$-]+) = type (.*)$', ln)
        if m:
            body = m.group(2).strip()
            M.named[m.group(1)] = OtherT('opaque') if body == 'opaque' else parse_type(P(tokenize(body)))
        elif ln.startswith('@'):
            m = re.match(r'(@"(?:[^"\\]|\\.)*"|@[\w.$-]+) = (.*)$', ln)
            name, rest = m.group(1), clean(m.group(2))
            rest = re.sub(r',\s*(comdat(\s*\([^)]*\))?|align\s+\d+|section\s+"[^"]*"|partition\s+"[^"]*")', '', rest)
            rest = re.sub(r',\s*(comdat(\s*\([^)]*\))?|align\s+\d+|section\s+"[^"]*")', '', rest)
            if ' alias ' in (' ' + rest) or re.match(r'((?:\w+\s+)*)alias\b', rest):
                mm = re.search(r'alias\s+(.*)$', rest)
                pp = P(tokenize(mm.group(1))); aty = parse_type(pp); pp.expect(','); tty = parse_type(pp); tv = parse_value(pp, tty)
                M.globs[name] = Glob(name, aty, ('alias', tv), True, False, ln)
            else:
                pp = P(tokenize(rest)); attrs = strip_attrs(pp)
                kind = pp.next()
                if kind not in ('global', 'constant'): raise Unsupported("global kind: " + ln)
                ty = parse_type(pp)
                init = None
                if not pp.done(): init = parse_value(pp, ty)
                M.globs[name] = Glob(name, ty, init, kind == 'constant', init is None, ln)
        elif ln.startswith('declare'):
            m = re.search(r'(@"(?:[^"\\]|\\.)*"|@[\w.$-]+)\(', ln)
            nm = m.group(1)
            pre = ln[:m.start(1)].replace('declare', '', 1)
            pp = P(tokenize(pre)); strip_attrs(pp); rty = parse_type(pp)
            d = 0; j = m.end() - 1
            while True:
                if ln[j] == '(': d += 1
                if ln[j] == ')':
                    d -= 1
                    if d == 0: break
                j += 1
            ptoks = P(tokenize(ln[m.end():j])); ps = []; va = False
            while not ptoks.done():
                if ptoks.peek() == '...': ptoks.next(); va = True
                else:
                    ps.append(parse_type(ptoks)); strip_attrs(ptoks)
                ptoks.eat(',')
            M.decls[nm] = FnT(rty, ps, va)
        elif ln.startswith('define'):
            f = Func()
            hdr = ln
            m = re.search(r'(@"(?:[^"\\]|\\.)*"|@[\w.$-]+)\(', hdr)
            f.name = m.group(1)
            pre = hdr[:m.start(1)]
            d = 0; j = m.end() - 1
            while True:
                if hdr[j] == '(': d += 1
                if hdr[j] == ')':
                    d -= 1
                    if d == 0: break
                j += 1
            pp = P(tokenize(pre.replace('define', '', 1))); strip_attrs(pp); f.ret = parse_type(pp)
            ptoks = P(tokenize(hdr[m.end():j])); n = 0
            while not ptoks.done():
                if ptoks.peek() == '...': ptoks.next(); f.vararg = True; continue
                ty = parse_type(ptoks); pattrs = strip_attrs(ptoks)
                nm = ptoks.next() if (ptoks.peek() and ptoks.peek().startswith('%')) else f"%{n}"
                f.params.append((ty, nm, pattrs)); n += 1
                ptoks.eat(',')
            cnt = sum(1 for (_, nm_, _) in f.params if nm_[1:].isdigit())
            cur = str(cnt)
            f.entry = cur
            f.blocks[cur] = []
            i += 1
            while not lines[i].startswith('}'):
                l = lines[i]
                lm = re.match(r'^((?:[\w.$-]+)|"(?:[^"\\]|\\.)*"):', l)
                if lm:
                    cur = lm.group(1); f.blocks[cur] = []
                else:
                    c = l.strip()
                    if c and not c.startswith(';'):
                        if re.match(r'^(switch\b)', c) and not clean(c).endswith(']'):
                            while not clean(lines[i]).endswith(']'):
                                i += 1; c += ' ' + clean(lines[i])
                        elif re.search(r'\binvoke\b', c) and ' to label ' not in c:
                            i += 1; c = clean(c) + ' ' + lines[i].strip()
                        elif re.search(r'=\s*landingpad\b', c):
                            while i + 1 < len(lines) and re.match(r'^\s+(catch|cleanup|filter)\b', lines[i + 1]):
                                i += 1; c = clean(c) + ' ' + clean(lines[i])
                        f.blocks[cur].append(parse_ins(c))
                i += 1
            M.funcs[f.name] = f
        i += 1
    return M
