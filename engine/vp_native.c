/* Native driver for the *generated C* (translation validation, debugging): nondet values come from VP_NONDET="v1,v2,..."
   (exhausted list -> 0), assertion failures and vp_log records go to stdout. */
#include <stdio.h>
#include <stdlib.h>
#include <string.h>
static int vals[4096], nvals = -1, pos;
static void load(void) {
  nvals = 0; const char* e = getenv("VP_NONDET");
  if (!e) return;
  char* s = strdup(e); for (char* t = strtok(s, ","); t && nvals < 4096; t = strtok(0, ",")) vals[nvals++] = atoi(t);
}
int vp_native_nondet(int kind) { (void)kind; if (nvals < 0) load(); return pos < nvals ? vals[pos++] : 0; }
void vp_native_assert_fail(int id, const char* txt) { printf("ASSERT-FAIL id=%d %s\n", id, txt); fflush(stdout); }
void vp_native_assume_fail(void) { printf("ASSUME-FAIL\n"); fflush(stdout); exit(3); }
void vp_log(int tag, int v) { printf("LOG %d %d\n", tag, v); }
