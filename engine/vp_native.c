/* Native driver for the *generated C* (counter-example replay, translation validation): nondet values come from
   VP_NONDET="v1,v2,..." (exhausted list -> 0).  With VP_TV=1 only harness draws (kinds >= 10) consume the list; model draws
   (budgets, time-outs, clock, spurious wake-ups) are 0.  Assertion failures, vp_log records and the final ghost dump go to stdout. */
#include <stdio.h>
#include <stdlib.h>
#include <string.h>
static int vals[4096], nvals = -1, pos, tvmode;
static void load(void) {
  nvals = 0; const char* e = getenv("VP_NONDET"); tvmode = getenv("VP_TV") != 0;
  if (!e) return;
  char* s = strdup(e); for (char* t = strtok(s, ","); t && nvals < 4096; t = strtok(0, ",")) vals[nvals++] = atoi(t);
}
int vp_native_nondet(int kind) {
  if (nvals < 0) load();
  if (tvmode && kind < 10) return 0;
  return pos < nvals ? vals[pos++] : 0;
}
int vp_native_pos(void) { return pos; }
void vp_native_assert_fail(int id, const char* txt) { printf("ASSERT-FAIL id=%d %s\n", id, txt); fflush(stdout); }
void vp_native_assume_fail(void) { printf("ASSUME-FAIL\n"); fflush(stdout); exit(3); }
void vp_log(int tag, int v) { printf("LOG %d %d\n", tag, v); }
void vp_native_dump(const int* ghost, int ng, unsigned covered) {
  for (int i = 0; i < ng; i++) if (ghost[i]) printf("GHOST %d %d\n", i, ghost[i]);
  printf("COVER %u\n", covered);
}
