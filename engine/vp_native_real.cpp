// Native implementation of the harness API (harness/vp.h) for translation validation: the harness and the real /repo headers
// are compiled by g++ and the thread entry functions are run to completion one after another (the greedy schedule);
// inputs come from VP_NONDET.  Output format identical to engine/vp_native.c so that the two logs can be diffed.
#include <cstdio>
#include <cstdlib>
#include <cstring>
#include <dlfcn.h>
#include <string>
#include <vector>
static int vals[4096], nvals = -1, pos_;
static void load() {
    nvals = 0; const char* e = getenv("VP_NONDET"); if (!e) return;
    char* s = strdup(e); for (char* t = strtok(s, ","); t && nvals < 4096; t = strtok(nullptr, ",")) vals[nvals++] = atoi(t);
}
static int draw() { if (nvals < 0) load(); return pos_ < nvals ? vals[pos_++] : 0; }
static int ghost[24]; static unsigned covered; static int cur_tid;
static int win_r[4], win_w[4];
extern "C" {
void vp_assert(bool c, int id) noexcept { if (!c) { printf("ASSERT-FAIL id=%d vp_assert\n", id); fflush(stdout); } }
void vp_assume(bool c) noexcept { if (!c) { printf("ASSUME-FAIL\n"); fflush(stdout); exit(3); } }
int vp_nondet_int() noexcept { return draw(); }
bool vp_nondet_bool() noexcept { return (static_cast<unsigned char>(draw()) & 1) != 0; }
int vp_nondet_range(int lo, int hi) noexcept { int v = draw(); vp_assume(v >= lo && v <= hi); return v; }
void vp_point() noexcept {}
int vp_tid() noexcept { return cur_tid; }
int vp_g(int i) noexcept { return ghost[i]; }
void vp_gset(int i, int v) noexcept { ghost[i] = v; }
int vp_gadd(int i, int d) noexcept { ghost[i] += d; return ghost[i]; }
void vp_win_enter(int o, int excl) noexcept {
    if (excl) { if (win_w[o] || win_r[o]) printf("ASSERT-FAIL id=-1 window\n"); win_w[o]++; }
    else { if (win_w[o]) printf("ASSERT-FAIL id=-1 window\n"); win_r[o]++; }
}
void vp_win_exit(int o, int excl) noexcept { if (excl) win_w[o]--; else win_r[o]--; }
int vp_win_readers(int o) noexcept { return win_r[o]; }
void vp_intent_excl(int) noexcept {}
void vp_intent_shared(int) noexcept {}
void vp_cover(int bit) noexcept { covered |= 1u << bit; }
void vp_log(int tag, int v) noexcept { printf("LOG %d %d\n", tag, v); }
unsigned vp_blockcount() noexcept { return 0; }
unsigned vp_ublockcount() noexcept { return 0; }
unsigned vp_cvwaits() noexcept { return 0; }
void vp_hb_data_write(int) noexcept {}
void vp_hb_data_read(int) noexcept {}
// exactly-once tables
static const void* tab_p[2][8]; static int tab_u[2][8];
static int tfind(int t, const void* p) { for (int i = 0; i < 8; i++) if (tab_u[t][i] && tab_p[t][i] == p) return i; return -1; }
void vp_tab_add(int t, const void* p) noexcept {
    if (!p || tfind(t, p) >= 0) printf("ASSERT-FAIL id=-1 table\n");
    for (int i = 0; i < 8; i++) if (!tab_u[t][i]) { tab_u[t][i] = 1; tab_p[t][i] = p; return; }
}
void vp_tab_del(int t, const void* p) noexcept { int k = tfind(t, p); if (k < 0) printf("ASSERT-FAIL id=-1 table\n"); else tab_u[t][k] = 0; }
int vp_tab_count(int t) noexcept { int c = 0; for (int i = 0; i < 8; i++) c += tab_u[t][i]; return c; }
int vp_tab_has(int t, const void* p) noexcept { return tfind(t, p) >= 0; }
// lock state probes: in a sequential run the only possible holder is the calling thread (glibc layouts: mutex __lock at 0;
// rwlock __readers at 0 (count << 3), __cur_writer at 24)
int vp_mutex_owner(const void* m) noexcept { return *static_cast<const int*>(m) != 0 ? cur_tid + 1 : 0; }
int vp_rw_state(const void* l) noexcept {
    const unsigned* w = static_cast<const unsigned*>(l);
    if (w[6] != 0) return (cur_tid + 1) << 8;
    if ((w[0] >> 3) != 0) return 1 << cur_tid;
    return 0;
}
// linearizability history: sequential execution is trivially linearizable in program order; recorded for log comparison only
int vp_hist_begin(int, int, int) noexcept { return 0; }
void vp_hist_end(int, int, int) noexcept {}
void vp_lin_check(int) noexcept {}
}
// usage: prog setup entry1:tid entry2:tid ... [final]   (names of extern "C" functions in this binary; '-' = none)
int main(int argc, char** argv)
{
    void* self = dlopen(nullptr, RTLD_NOW);
    for (int i = 1; i < argc; i++) {
        std::string a = argv[i];
        if (a == "-") continue;
        int tid = 0; auto c = a.find(':');
        if (c != std::string::npos) { tid = atoi(a.c_str() + c + 1); a = a.substr(0, c); }
        auto f = reinterpret_cast<void (*)()>(dlsym(self, a.c_str()));
        if (!f) { printf("TV-ERROR no symbol %s\n", a.c_str()); return 4; }
        cur_tid = tid;
        try { f(); } catch (...) { printf("ASSERT-FAIL id=-1 uncaught exception\n"); }
        if (tid) printf("DONE-REAL %s\n", a.c_str());
    }
    for (int i = 0; i < 24; i++) if (ghost[i]) printf("GHOST %d %d\n", i, ghost[i]);
    printf("COVER %u\n", covered);
    return 0;
}
