/* E4: happens-before / stale-read monitor (C07, publication clause of C19).  Included after vpmodels.h when the query sets
 * opts.hb.  What it decides, over the interleavings the scheduler explores:
 *   (a) every non-atomic access to thread-shared memory is ordered by happens-before after the previous conflicting access
 *       (vector clocks; synchronisation edges: pthread mutex / rwlock, atomics according to their IR memory order,
 *       release sequences continued by RMWs and by later stores of the same thread (C++17 rule), thread start/finish);
 *   (b) a load that is weaker than seq_cst, or whose location was last written by a store weaker than seq_cst, may return the *previous* value of its location when the latest store is not ordered before
 *       the load by happens-before and the thread has not yet observed it (one-deep store history, coherence respected) -
 *       this exposes protocols that need the store->load ordering only seq_cst gives.
 * Not modelled (stated in DESIGN.md): load buffering / promises, consume, mixed-size accesses, histories deeper than one. */
#ifndef VPHB_H
#define VPHB_H
#define VP_HT (VP_NT + 1)
#ifndef VP_HB_K
#define VP_HB_K 10      /* synchronisation objects + atomic locations */
#endif
#ifndef VP_HB_M
#define VP_HB_M 12      /* non-atomic shared locations */
#endif
unsigned vp_vc[VP_HT][VP_HT];                 /* thread clocks */
char* vp_ho_addr[VP_HB_K]; int vp_ho_n;       /* object table (address keyed) */
unsigned vp_ho_vc[VP_HB_K][VP_HT];            /* release clock carried by the object / location */
int vp_ho_head[VP_HB_K];                      /* thread that wrote the head of the current release sequence (+1), 0 none */
/* one-deep store history of atomic locations */
int vp_ho_hasprev[VP_HB_K]; uint64_t vp_ho_prev_i[VP_HB_K]; char* vp_ho_prev_p[VP_HB_K];
unsigned vp_ho_prev_vc[VP_HB_K][VP_HT];       /* release clock of the previous value */
unsigned vp_ho_wclk[VP_HB_K][VP_HT];          /* full clock of the writer of the latest value (for 'latest happens-before me') */
int vp_ho_wsc[VP_HB_K];                       /* the latest store was seq_cst (only then a seq_cst load is bound to see it) */
int vp_ho_seen[VP_HB_K];                      /* bit t: thread t has observed (read or written) the latest value */
/* shadow of non-atomic locations */
char* vp_hs_addr[VP_HB_M]; int vp_hs_n;
int vp_hs_wt[VP_HB_M]; unsigned vp_hs_wc[VP_HB_M];   /* last write epoch: thread, its clock component */
unsigned vp_hs_rc[VP_HB_M][VP_HT];                   /* read clocks */
int vp_hb_stale_reads;                        /* how many stale reads the schedule used (evidence) */

static inline void vp_hb_init(void) {
  for (int t = 0; t < VP_HT; t++) vp_vc[t][t] = 1;
}
/* threads start after setup: they inherit thread 0's clock */
static inline void vp_hb_fork(void) {
  vp_vc[0][0]++;
  for (int t = 1; t < VP_HT; t++) for (int u = 0; u < VP_HT; u++) if (vp_vc[0][u] > vp_vc[t][u]) vp_vc[t][u] = vp_vc[0][u];
}
static inline void vp_hb_joinall(void) {
  for (int t = 1; t < VP_HT; t++) for (int u = 0; u < VP_HT; u++) if (vp_vc[t][u] > vp_vc[0][u]) vp_vc[0][u] = vp_vc[t][u];
}
static inline int vp_ho_slot(char* a) {
  for (int i = 0; i < VP_HB_K; i++) if (i < vp_ho_n && vp_ho_addr[i] == a) return i;
  VP_CHECK(vp_ho_n < VP_HB_K, "model bound: happens-before object table full");
  int k = vp_ho_n; if (k >= VP_HB_K) k = VP_HB_K - 1;
  vp_ho_addr[k] = a; vp_ho_n = k + 1;
  return k;
}
static inline void vp_hb_acquire_from(int k) {
  int t = vp_cur;
  for (int u = 0; u < VP_HT; u++) if (vp_ho_vc[k][u] > vp_vc[t][u]) vp_vc[t][u] = vp_ho_vc[k][u];
}
static inline void vp_hb_release_to(int k, int replace) {
  int t = vp_cur;
  for (int u = 0; u < VP_HT; u++) {
    if (replace || vp_vc[t][u] > vp_ho_vc[k][u]) vp_ho_vc[k][u] = vp_vc[t][u];
  }
  vp_vc[t][t]++;
}
/* ---- locks */
static inline void vp_hb_lock(char* m) { vp_hb_acquire_from(vp_ho_slot(m)); }
static inline void vp_hb_unlock(char* m) { vp_hb_release_to(vp_ho_slot(m), 0); }

/* ---- non-atomic accesses */
static inline int vp_hs_slot(char* a) {
  for (int i = 0; i < VP_HB_M; i++) if (i < vp_hs_n && vp_hs_addr[i] == a) return i;
  VP_CHECK(vp_hs_n < VP_HB_M, "model bound: shadow table for non-atomic locations full");
  int k = vp_hs_n; if (k >= VP_HB_M) k = VP_HB_M - 1;
  vp_hs_addr[k] = a; vp_hs_n = k + 1; vp_hs_wt[k] = -1;
  return k;
}
static inline void vp_hb_na_read(char* a) {
  int t = vp_cur, k = vp_hs_slot(a);
  if (vp_hs_wt[k] >= 0 && vp_hs_wt[k] != t)
    VP_CHECK(vp_hs_wc[k] <= vp_vc[t][vp_hs_wt[k]], "data race: non-atomic read not ordered after the last write by happens-before");
  vp_hs_rc[k][t] = vp_vc[t][t];
}
static inline void vp_hb_na_write(char* a) {
  int t = vp_cur, k = vp_hs_slot(a);
  if (vp_hs_wt[k] >= 0 && vp_hs_wt[k] != t)
    VP_CHECK(vp_hs_wc[k] <= vp_vc[t][vp_hs_wt[k]], "data race: non-atomic write not ordered after the last write by happens-before");
  for (int u = 0; u < VP_HT; u++)
    if (u != t) VP_CHECK(vp_hs_rc[k][u] <= vp_vc[t][u], "data race: non-atomic write not ordered after an earlier read by happens-before");
  vp_hs_wt[k] = t; vp_hs_wc[k] = vp_vc[t][t];
}
#define VP_IS_ACQ(o) ((o) == VP_O_ACQUIRE || (o) == VP_O_ACQ_REL || (o) == VP_O_SEQ_CST)
#define VP_IS_REL(o) ((o) == VP_O_RELEASE || (o) == VP_O_ACQ_REL || (o) == VP_O_SEQ_CST)
#define VP_HB_LOAD(p, n, o) do { if ((o) == VP_O_NA) vp_hb_na_read(p); } while (0)
#define VP_HB_STORE(p, n, o) do { if ((o) == VP_O_NA) vp_hb_na_write(p); } while (0)

/* ---- atomics.  Called by the generated code around the real memory operation. */
/* atomic store: remember the value being overwritten (one-deep history), then publish */
static inline void vp_hb_astore_i(char* a, uint64_t old, int order) {
  int t = vp_cur, k = vp_ho_slot(a);
  vp_ho_hasprev[k] = 1; vp_ho_prev_i[k] = old;
  for (int u = 0; u < VP_HT; u++) { vp_ho_prev_vc[k][u] = vp_ho_vc[k][u]; vp_ho_wclk[k][u] = vp_vc[t][u]; }
  vp_ho_seen[k] = 1 << t; vp_ho_wsc[k] = (order == VP_O_SEQ_CST);
  if (VP_IS_REL(order)) { vp_hb_release_to(k, 1); vp_ho_head[k] = t + 1; }
  else if (vp_ho_head[k] != t + 1) { for (int u = 0; u < VP_HT; u++) vp_ho_vc[k][u] = 0; vp_ho_head[k] = 0; }
}
static inline void vp_hb_astore_p(char* a, char* old, int order) {
  int k = vp_ho_slot(a); vp_ho_prev_p[k] = old; vp_hb_astore_i(a, 0, order);
}
/* atomic load: returns 1 if the caller must use the previous value (stale read) */
static inline int vp_hb_aload(char* a, int order) {
  int t = vp_cur, k = vp_ho_slot(a);
  int stale = 0;
  if ((order != VP_O_SEQ_CST || !vp_ho_wsc[k]) && vp_ho_hasprev[k] && !((vp_ho_seen[k] >> t) & 1)) {
    int hb = 1;   /* does the latest store happen-before this load? */
    for (int u = 0; u < VP_HT; u++) if (vp_ho_wclk[k][u] > vp_vc[t][u]) hb = 0;
    if (!hb && (vp_nd_uchar() & 1)) stale = 1;
  }
  if (stale) {
    vp_hb_stale_reads++;
    if (VP_IS_ACQ(order)) for (int u = 0; u < VP_HT; u++) if (vp_ho_prev_vc[k][u] > vp_vc[t][u]) vp_vc[t][u] = vp_ho_prev_vc[k][u];
    return 1;
  }
  vp_ho_seen[k] |= 1 << t;
  if (VP_IS_ACQ(order)) vp_hb_acquire_from(k);
  return 0;
}
static inline uint64_t vp_hb_prev_i(char* a) { return vp_ho_prev_i[vp_ho_slot(a)]; }
static inline char* vp_hb_prev_p(char* a) { return vp_ho_prev_p[vp_ho_slot(a)]; }
/* read-modify-write: always reads the latest value, continues the release sequence */
static inline void vp_hb_rmw(char* a, int order, int wrote) {
  int t = vp_cur, k = vp_ho_slot(a);
  if (VP_IS_ACQ(order)) vp_hb_acquire_from(k);
  if (wrote) {
    vp_ho_hasprev[k] = 0;                         /* no stale value across an RMW (conservative: fewer behaviours) */
    for (int u = 0; u < VP_HT; u++) vp_ho_wclk[k][u] = vp_vc[t][u];
    vp_ho_seen[k] = 1 << t;
    if (VP_IS_REL(order)) vp_hb_release_to(k, 0);
  } else vp_ho_seen[k] |= 1 << t;
}
#define VP_HB_RMW(p, n, o) vp_hb_rmw(p, o, 1)
#define VP_HB_CAS(p, n, o1, o2, succ) vp_hb_rmw(p, (succ) ? (o1) : (o2), (succ))
#define VP_HB_FENCE(o) do { } while (0)

/* ghost plain data used by harnesses to observe publication */
static inline void vp_hb_data_write(int32_t loc) { vp_hb_na_write((char*)&vp_ghost[VP_NG - 1 - loc]); }
static inline void vp_hb_data_read(int32_t loc) { vp_hb_na_read((char*)&vp_ghost[VP_NG - 1 - loc]); }
#endif
