#!/usr/bin/env python3
"""irinstr.py in.ll out.ll : instrument the *real* LLVM IR (harness + /repo headers) for native replay (E6).

 - before every load / store / atomicrmw / cmpxchg / fence / llvm.mem* call / call to a modelled visible external a call
   `call void @vp_rt_ev(i32 kind)` is inserted: the same events the generated C counts with VP_EV (engine/iremit.py), so a
   schedule expressed as "thread t runs n events" means the same thing in both worlds;
 - the externals that engine/vpmodels.h models (pthread mutex / rwlock / condition variable, sched_yield, clocks, ...) are
   renamed to vp_rt_* and implemented by engine/vp_rt.cpp on top of the very same model functions, so the real compiled
   library code runs against the same environment as the encoding.
The module is then compiled with `clang++-14 -O0 -c` (no IR-level optimisation: every inserted call survives)."""
import re, sys
sys.path.insert(0, __import__('os').path.dirname(__file__))
from iremit import MODELS

EV_KINDS = {'vis': 4, 'block': 4, 'tblock': 4, 'mem': 4, 'yield': 3, 'cvwait': 4, 'cvclockwait': 4, 'cvtimedwait': 4}
# externals implemented by the runtime (renamed); everything else keeps calling the real libstdc++ / libc
RENAME = [n[1:] for n, m in MODELS.items() if m['kind'] in ('block', 'tblock', 'vis', 'yield', 'cvwait', 'cvclockwait', 'cvtimedwait')
          and not n.startswith('@vp_') and n not in ('@_ZdlPv', '@_ZdaPv', '@_ZdlPvm', '@free', '@__cxa_guard_acquire', '@__cxa_guard_release', '@__cxa_guard_abort', '@nanosleep')]
RENAME += ['_ZNSt18condition_variableC1Ev', '_ZNSt18condition_variableC2Ev', '_ZNSt18condition_variableD1Ev', '_ZNSt18condition_variableD2Ev',
           '_ZNSt6chrono3_V212steady_clock3nowEv', '_ZNSt6chrono3_V212system_clock3nowEv']


def instrument(text):
    out = []
    infn = False
    model_ev = {n[1:]: EV_KINDS[m['kind']] for n, m in MODELS.items() if m['kind'] in EV_KINDS and not n.startswith('@vp_')}
    for ln in text.split('\n'):
        if ln.startswith('define'):
            infn = True; out.append(ln); continue
        if ln.startswith('}'):
            infn = False; out.append(ln); continue
        if infn:
            body = ln.strip()
            m = re.match(r'(?:%[\w.$"-]+ = )?(?:tail |musttail |notail )?(load|store|atomicrmw|cmpxchg|fence|call|invoke)\b', body)
            if m:
                op = m.group(1); kind = None
                if op == 'load' and '@__libc_single_threaded' in body: kind = None     # folded to a constant by the encoder (irxform.fold_constants)
                elif op == 'load': kind = 0
                elif op in ('store', 'atomicrmw', 'cmpxchg'): kind = 1
                elif op == 'fence': kind = 2
                else:
                    c = re.search(r'@([\w.$]+)\(', body)
                    if c:
                        nm = c.group(1)
                        if nm.startswith(('llvm.memcpy', 'llvm.memmove', 'llvm.memset')): kind = 1
                        elif nm == 'vp_point': kind = 4      # explicit switch point of the harness API: an event in the encoding too
                        elif nm in model_ev and nm not in RENAME: kind = model_ev[nm]   # renamed externals count their own events (vp_rt.c)
                if kind is not None:
                    out.append(f"  call void @vp_rt_ev(i32 {kind})")
        out.append(ln)
    text = '\n'.join(out)
    for nm in RENAME:
        text = re.sub(r'@' + re.escape(nm) + r'\b', '@vp_rt_' + nm, text)
    # let AddressSanitizer instrument the (already event-instrumented) module when it is compiled with -fsanitize=address
    text = re.sub(r'^(attributes #\d+ = \{)', r'\1 sanitize_address', text, flags=re.M)
    text += '\ndeclare void @vp_rt_ev(i32)\n'
    return text


if __name__ == '__main__':
    open(sys.argv[2], 'w').write(instrument(open(sys.argv[1]).read()))
