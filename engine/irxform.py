#!/usr/bin/env python3
"""IR -> XFunc: (optional) translator-side inlining, explicit exception edges, and the
analyses that decide which instructions are context-switch points ("visible ops")."""
import re, collections
from irparse import *

# externals whose model can raise a C++ exception
THROWING_EXTERNALS = {'@__cxa_throw', '@__cxa_rethrow', '@_ZSt17rethrow_exceptionNSt15__exception_ptr13exception_ptrE',
                      '@_ZSt24__throw_out_of_range_fmtPKcz', '@_ZSt20__throw_future_errori', '@vp_throw'}
NORETURN_THROW = {'@__cxa_throw', '@__cxa_rethrow', '@_ZSt17rethrow_exceptionNSt15__exception_ptr13exception_ptrE',
                  '@_ZSt24__throw_out_of_range_fmtPKcz', '@_ZSt20__throw_future_errori', '@vp_throw'}
DROP_INTRINSICS = ('@llvm.lifetime.', '@llvm.experimental.noalias.scope.decl', '@llvm.assume', '@llvm.dbg.',
                   '@llvm.invariant.', '@llvm.prefetch', '@llvm.donothing')


class XFunc:
    def __init__(s, name):
        s.name = name
        s.blocks = collections.OrderedDict()   # name -> [Ins]
        s.entry = None
        s.params = []      # (ty, regname)
        s.ret = None
        s.regty = {}       # reg -> T
        s.ninst = 0
        s.allocas = []     # (reg, ty)
        s.inlined = []     # names of functions inlined (with multiplicity)


def val_regs(v, out):
    if v is None: return
    k = v[0]
    if k == 'reg': out.append(v[1])
    elif k == 'cexpr':
        for x in v[2:]:
            if isinstance(x, tuple) and x and isinstance(x[0], str) and x[0] in ('reg', 'glob', 'int', 'null', 'undef', 'zero', 'cexpr', 'agg', 'str', 'fp'): val_regs(x, out)
            elif isinstance(x, list):
                for (_, y) in x: val_regs(y, out)
    elif k == 'agg':
        for (_, y) in v[2]: val_regs(y, out)


def val_globs(v, out):
    if v is None: return
    k = v[0]
    if k == 'glob': out.append(v[1])
    elif k == 'cexpr':
        for x in v[2:]:
            if isinstance(x, tuple) and x and isinstance(x[0], str) and x[0] in ('reg', 'glob', 'int', 'null', 'undef', 'zero', 'cexpr', 'agg', 'str', 'fp'): val_globs(x, out)
            elif isinstance(x, list):
                for (_, y) in x: val_globs(y, out)
    elif k == 'agg':
        for (_, y) in v[2]: val_globs(y, out)


def ins_operands(i):
    """list of operand Vals (excluding labels)."""
    o, a = i.op, i.a
    if o == 'bin': return [a[1], a[2]]
    if o == 'icmp': return [a[2], a[3]]
    if o == 'cast': return [a[2]]
    if o in ('freeze', 'copy'): return [a[0]]
    if o == 'select': return [a[0], a[1], a[2]]
    if o == 'gep': return [a[1]] + [v for (_, v) in a[2]]
    if o == 'alloca': return [a[1]] if a[1] else []
    if o == 'load': return [a[0]]
    if o == 'store': return [a[0], a[1]]
    if o == 'rmw': return [a[1], a[2]]
    if o == 'cas': return [a[0], a[2], a[3]]
    if o == 'extractvalue': return [a[1]]
    if o == 'insertvalue': return [a[0], a[2]]
    if o == 'phi': return [v for (v, _) in a[0]]
    if o == 'br': return [a[0]] if a[0] else []
    if o == 'switch': return [a[1]]
    if o == 'ret': return [a[0]] if a[0] else []
    if o == 'resume': return [a[0]]
    if o == 'call': return [a[0]] + [v for (_, v, _) in a[1]]
    if o == 'landingpad': return [v for (_, _, v) in a[1]]
    return []


def rename_val(v, rn):
    if v is None: return None
    k = v[0]
    if k == 'reg': return ('reg', rn(v[1]))
    if k == 'cexpr':
        out = [v[0], v[1]]
        for x in v[2:]:
            if isinstance(x, tuple) and x and isinstance(x[0], str) and x[0] in ('reg', 'glob', 'int', 'null', 'undef', 'zero', 'cexpr', 'agg', 'str', 'fp'): out.append(rename_val(x, rn))
            elif isinstance(x, list): out.append([(t, rename_val(y, rn)) for (t, y) in x])
            else: out.append(x)
        return tuple(out)
    if k == 'agg': return ('agg', v[1], [(t, rename_val(y, rn)) for (t, y) in v[2]])
    return v


def rename_ins(i, rn, bl):
    """clone instruction with registers renamed by rn and block labels by bl."""
    o, a = i.op, i.a
    R = lambda v: rename_val(v, rn)
    if o == 'bin': na = (a[0], R(a[1]), R(a[2]))
    elif o == 'icmp': na = (a[0], a[1], R(a[2]), R(a[3]))
    elif o == 'cast': na = (a[0], a[1], R(a[2]))
    elif o in ('freeze', 'copy'): na = (R(a[0]),)
    elif o == 'select': na = (R(a[0]), R(a[1]), R(a[2]))
    elif o == 'gep': na = (a[0], R(a[1]), [(t, R(v)) for (t, v) in a[2]])
    elif o == 'alloca': na = (a[0], R(a[1]) if a[1] else None)
    elif o == 'load': na = (R(a[0]), a[1])
    elif o == 'store': na = (R(a[0]), R(a[1]), a[2])
    elif o == 'rmw': na = (a[0], R(a[1]), R(a[2]), a[3])
    elif o == 'cas': na = (R(a[0]), a[1], R(a[2]), R(a[3]), a[4], a[5], a[6])
    elif o == 'fence': na = a
    elif o == 'extractvalue': na = (a[0], R(a[1]), a[2])
    elif o == 'insertvalue': na = (R(a[0]), a[1], R(a[2]), a[3])
    elif o == 'phi': na = ([(R(v), bl(b)) for (v, b) in a[0]],)
    elif o == 'br': na = (R(a[0]) if a[0] else None, bl(a[1]), bl(a[2]) if a[2] else None)
    elif o == 'switch': na = (a[0], R(a[1]), bl(a[2]), [(cv, bl(l)) for (cv, l) in a[3]])
    elif o == 'ret': na = (R(a[0]) if a[0] else None,)
    elif o == 'resume': na = (R(a[0]),)
    elif o == 'unreachable': na = ()
    elif o == 'landingpad': na = (a[0], [(k, t, R(v)) for (k, t, v) in a[1]])
    elif o == 'call': na = (R(a[0]), [(t, R(v), at) for (t, v, at) in a[1]], bl(a[2]) if a[2] else None, bl(a[3]) if a[3] else None, a[4])
    else: raise Unsupported("rename " + o)
    n = Ins(rn(i.dst) if i.dst else None, o, i.ty, na, i.raw)
    n.attrs = dict(i.attrs)
    return n


def result_type(M, i):
    if i.op == 'extractvalue':
        t = i.a[0]
        for k in i.a[2]:
            rt = M.resolve(t)
            t = rt.fields[k] if isinstance(rt, StructT) else rt.el
        return t
    return i.ty


class Builder:
    """Builds an XFunc from an entry function."""
    def __init__(s, M, inline=True, noinline=(), max_insts=4000):
        s.M = M; s.inline = inline; s.noinline = set(noinline); s.max_insts = max_insts
        s._may_throw = {}
        s.plain_needed = set()     # defined functions that are called (not inlined) -> must be emitted as plain C
        s.address_taken = set()

    def is_noinline(s, cn):
        if cn in s.noinline: return True
        return any(p.endswith('*') and cn.startswith(p[:-1]) for p in s.noinline)

    # ---- may-throw analysis (context-insensitive, conservative)
    def may_throw(s, fname, stack=()):
        if fname in s._may_throw: return s._may_throw[fname]
        if fname in stack: return False
        f = s.M.funcs.get(fname)
        if f is None:
            r = fname in THROWING_EXTERNALS
            s._may_throw[fname] = r; return r
        r = False
        # a function may throw iff an exception can leave it: resume, or a throwing call that is not an invoke,
        # (invoke'd exceptions end in a landing pad, which leaves only via resume / a nested throwing call)
        for b in f.blocks.values():
            for i in b:
                if i.op == 'resume': r = True
                elif i.op == 'call' and i.a[3] is None:
                    c = i.a[0]
                    if c[0] == 'glob':
                        if s.may_throw(c[1], stack + (fname,)): r = True
                    elif c[0] == 'reg': r = True     # indirect: unknown
                if r: break
            if r: break
        s._may_throw[fname] = r
        return r

    def build(s, fname):
        f = s.M.funcs[fname]
        X = XFunc(fname)
        X.ret = f.ret
        s.X = X
        s.counter = 0
        # top-level uncaught handler
        X.params = [(ty, nm) for (ty, nm, _) in f.params]
        for (ty, nm) in X.params: X.regty[nm] = ty
        entry = s.expand(f, '', None, None, None, (fname,))
        X.entry = entry
        # uncaught block (only emitted if referenced)
        return X

    def expand(s, f, pfx, ret_dst, ret_label, unwind, stack):
        """Clone f's blocks into s.X with prefix. unwind = (label, as_pred) target for exceptions leaving f, or None
        meaning: leave the XFunc (plain function: return with pending exception; thread entry: uncaught).
        Returns the (prefixed) entry block name."""
        M, X = s.M, s.X
        rn = (lambda r: r) if pfx == '' else (lambda r: '%' + pfx + r[1:])
        bl = (lambda b: b) if pfx == '' else (lambda b: pfx + b)
        if len(X.blocks) > 200000: raise Unsupported("inlining blow-up")
        for bname, ins_list in f.blocks.items():
            cur = bl(bname)
            orig = cur
            X.blocks[cur] = []
            seg = 0
            for i in ins_list:
                n = rename_ins(i, rn, bl)
                n.attrs['as_pred'] = orig
                if n.dst: X.regty[n.dst] = result_type(M, n)
                if n.op == 'alloca': X.allocas.append((n.dst, n.a[0]))
                if n.op == 'ret':
                    if ret_label is not None:
                        if ret_dst is not None and n.a[0] is not None:
                            c = Ins(ret_dst, 'copy', n.ty, (n.a[0],), n.raw); X.blocks[cur].append(c)
                        b = Ins(None, 'br', VoidT(), (None, ret_label, None), n.raw); b.attrs['as_pred'] = orig
                        X.blocks[cur].append(b)
                    else:
                        X.blocks[cur].append(n)
                    continue
                if n.op == 'resume':
                    # re-raise: pending flag is set again by the emitter ('reraise'), then transfer
                    r = Ins(None, 'reraise', VoidT(), (n.a[0],), n.raw); X.blocks[cur].append(r)
                    X.blocks[cur].append(s.unwind_jump(unwind, n.raw))
                    continue
                if n.op != 'call':
                    X.blocks[cur].append(n); continue
                callee, args, normal, uw, fnty = n.a
                site_unwind = (uw, orig) if uw else unwind
                if callee[0] == 'glob':
                    cn = callee[1]
                    if cn.startswith('@llvm.') and cn.startswith(DROP_INTRINSICS):
                        if normal:
                            b = Ins(None, 'br', VoidT(), (None, normal, None), n.raw); b.attrs['as_pred'] = orig; X.blocks[cur].append(b)
                        continue
                    g = M.funcs.get(cn)
                    if g is not None and s.inline and not s.is_noinline(cn) and cn not in stack and not g.vararg:
                        # ---- inline
                        s.counter += 1; k = s.counter
                        if k > s.max_insts: raise Unsupported("too many inlined instances")
                        X.inlined.append(cn)
                        npfx = f"i{k}."
                        for (pty, pnm, _), (aty, av, _) in zip(g.params, args):
                            pr = '%' + npfx + pnm[1:]
                            X.regty[pr] = pty
                            X.blocks[cur].append(Ins(pr, 'copy', pty, (av,), n.raw))
                        seg += 1
                        cont = f"{orig}.c{seg}"
                        ret_to = cont
                        centry = npfx + g.entry
                        b = Ins(None, 'br', VoidT(), (None, centry, None), n.raw); b.attrs['as_pred'] = orig
                        X.blocks[cur].append(b)
                        s.expand(g, npfx, n.dst, ret_to, site_unwind, stack + (cn,))
                        cur = cont
                        X.blocks[cur] = []
                        if normal:
                            b = Ins(None, 'br', VoidT(), (None, normal, None), n.raw); b.attrs['as_pred'] = orig
                            X.blocks[cur].append(b)
                        continue
                    if g is not None: s.plain_needed.add(cn)
                    throws = s.may_throw(cn)
                    if cn in NORETURN_THROW:
                        c = Ins(None, 'call', n.ty, (callee, args, None, None, fnty), n.raw); c.attrs['as_pred'] = orig
                        X.blocks[cur].append(c)
                        X.blocks[cur].append(s.unwind_jump(site_unwind, n.raw))
                        # remaining instructions of this block (unreachable) are dropped
                        seg += 1; cur = f"{orig}.dead{seg}"; X.blocks[cur] = []
                        continue
                else:
                    throws = True    # indirect call
                c = Ins(n.dst, 'call', n.ty, (callee, args, None, None, fnty), n.raw); c.attrs['as_pred'] = orig
                X.blocks[cur].append(c)
                if throws:
                    seg += 1
                    cont = f"{orig}.c{seg}"
                    e = Ins(None, 'excbr', VoidT(), (s.unwind_target(site_unwind), cont), n.raw)
                    e.attrs['as_pred'] = orig
                    e.attrs['uw_as_pred'] = site_unwind[1] if site_unwind else None
                    X.blocks[cur].append(e)
                    cur = cont; X.blocks[cur] = []
                if normal:
                    b = Ins(None, 'br', VoidT(), (None, normal, None), n.raw); b.attrs['as_pred'] = orig
                    X.blocks[cur].append(b)
        return bl(f.entry)

    def unwind_target(s, unwind):
        return unwind[0] if unwind else None

    def unwind_jump(s, unwind, raw):
        if unwind is None:
            return Ins(None, 'excret', VoidT(), (), raw)     # leave the XFunc with the exception pending
        b = Ins(None, 'br', VoidT(), (None, unwind[0], None), raw)
        b.attrs['as_pred'] = unwind[1]
        return b


# ---------------------------------------------------------------- analyses
def successors(i):
    if i.op == 'br': return [x for x in (i.a[1], i.a[2]) if x]
    if i.op == 'switch': return [i.a[2]] + [l for (_, l) in i.a[3]]
    if i.op == 'excbr': return [x for x in (i.a[0], i.a[1]) if x]
    return []


def prune_unreachable(X):
    reach = set(); work = [X.entry]
    while work:
        b = work.pop()
        if b in reach: continue
        reach.add(b)
        for i in X.blocks[b]:
            for t in successors(i):
                if t not in X.blocks: raise Unsupported(f"missing block {t} in {X.name}")
                work.append(t)
    # cut instructions after the first terminator in each block, drop unreachable blocks
    nb = collections.OrderedDict()
    for b, il in X.blocks.items():
        if b not in reach: continue
        out = []
        for i in il:
            out.append(i)
            if i.op in ('br', 'switch', 'ret', 'unreachable', 'excret', 'excbr'): break
        nb[b] = out
    X.blocks = nb
    # phis: drop incoming from blocks that no longer reach
    preds = collections.defaultdict(set)
    for b, il in X.blocks.items():
        for i in il:
            for t in successors(i):
                ap = i.attrs.get('as_pred', b)
                if i.op == 'excbr' and t == i.a[0] and i.attrs.get('uw_as_pred'): ap = i.attrs['uw_as_pred']
                preds[t].add(ap)
    X.preds = preds
    return X


CONST_GLOBALS = {'@__libc_single_threaded': 0}    # the encoded program is multi-threaded: libstdc++ takes the atomic paths


def fold_constants(M, X):
    """Tiny constant folder: loads of CONST_GLOBALS, icmp / and / zext / trunc / select of constants, conditional branches on
    constants.  Removes the single-threaded fast paths libstdc++ compiles into every shared_ptr operation."""
    const = {}
    def cv(v):
        if v is None: return None
        if v[0] == 'int': return v[1]
        if v[0] == 'reg' and v[1] in const: return const[v[1]]
        return None
    changed = True
    while changed:
        changed = False
        for b, il in X.blocks.items():
            for i in il:
                if not i.dst or i.dst in const: continue
                val = None
                if i.op == 'load' and i.a[0][0] == 'glob' and i.a[0][1] in CONST_GLOBALS: val = CONST_GLOBALS[i.a[0][1]]
                elif i.op == 'icmp':
                    a, c = cv(i.a[2]), cv(i.a[3])
                    if a is not None and c is not None and i.a[0] in ('eq', 'ne'): val = int((a == c) == (i.a[0] == 'eq'))
                elif i.op == 'cast' and i.a[0] in ('zext', 'trunc') and cv(i.a[2]) is not None:
                    val = cv(i.a[2]) & ((1 << M.resolve(i.ty).n) - 1)
                elif i.op == 'bin' and i.a[0] in ('and', 'or', 'xor') and cv(i.a[1]) is not None and cv(i.a[2]) is not None:
                    x, y = cv(i.a[1]), cv(i.a[2])
                    val = {'and': x & y, 'or': x | y, 'xor': x ^ y}[i.a[0]]
                elif i.op in ('copy', 'freeze') and cv(i.a[0]) is not None and len([1 for bb in X.blocks.values() for j in bb if j.dst == i.dst]) == 1:
                    val = cv(i.a[0])
                if val is not None:
                    const[i.dst] = val; changed = True
    n = 0
    for b, il in X.blocks.items():
        for k, i in enumerate(il):
            if i.op == 'br' and i.a[0] is not None and cv(i.a[0]) is not None:
                tgt = i.a[1] if cv(i.a[0]) else i.a[2]
                ni = Ins(None, 'br', i.ty, (None, tgt, None), i.raw); ni.attrs = dict(i.attrs)
                il[k] = ni; n += 1
            elif i.op == 'load' and i.dst in const and i.a[0][0] == 'glob':
                ni = Ins(i.dst, 'copy', i.ty, (('int', const[i.dst]),), i.raw); ni.attrs = dict(i.attrs); il[k] = ni
    return n


def thread_blocks(X):
    """merge chains of trivially connected blocks?  (not needed: emission is linear anyway)"""
    return X


def infer_ptrlike(M, X):
    """i64 registers that carry pointers (std::atomic<T*> lowered to i64 + inttoptr/ptrtoint)."""
    pl = set()
    defs = {}
    for b in X.blocks.values():
        for i in b:
            if i.dst: defs.setdefault(i.dst, []).append(i)
    is64 = lambda t: isinstance(M.resolve(t), IntT) and M.resolve(t).n == 64
    for b in X.blocks.values():
        for i in b:
            if i.op == 'cast':
                if i.a[0] == 'ptrtoint' and is64(i.ty): pl.add(i.dst)
                if i.a[0] == 'inttoptr' and i.a[2][0] == 'reg': pl.add(i.a[2][1])
    changed = True
    while changed:
        changed = False
        def link(names):
            nonlocal changed
            if any(n in pl for n in names):
                for n in names:
                    if n not in pl: pl.add(n); changed = True
        for b in X.blocks.values():
            for i in b:
                if i.op == 'phi' and is64(i.ty):
                    link([i.dst] + [v[1] for (v, _) in i.a[0] if v[0] == 'reg'])
                elif i.op == 'select' and is64(i.ty):
                    link([i.dst] + [v[1] for v in (i.a[1], i.a[2]) if v[0] == 'reg'])
                elif i.op in ('copy', 'freeze') and i.ty is not None and is64(i.ty):
                    link([i.dst] + ([i.a[0][1]] if i.a[0][0] == 'reg' else []))
                elif i.op == 'cas' and is64(i.a[1]):
                    link([i.dst + '#0'] + [v[1] for v in (i.a[2], i.a[3]) if v[0] == 'reg'])
                elif i.op == 'extractvalue' and i.a[2] == [0] and i.a[1][0] == 'reg' and (i.a[1][1] + '#0') in pl | {None}:
                    link([i.dst, i.a[1][1] + '#0'])
                elif i.op == 'extractvalue' and i.a[2] == [0] and i.a[1][0] == 'reg' and i.dst in pl:
                    link([i.dst, i.a[1][1] + '#0'])
                elif i.op == 'rmw' and i.a[0] == 'xchg' and is64(i.ty):
                    link([i.dst] + ([i.a[2][1]] if i.a[2][0] == 'reg' else []))
    # sanity: pointer-like i64 must not be used in arithmetic
    for b in X.blocks.values():
        for i in b:
            if i.op == 'bin':
                if i.a[0] == 'sub' and all(v[0] == 'reg' and v[1] in pl for v in (i.a[1], i.a[2])):
                    continue        # pointer difference
                for v in (i.a[1], i.a[2]):
                    if v[0] == 'reg' and v[1] in pl:
                        raise Unsupported("arithmetic on pointer-like i64 " + i.raw.strip())
    return pl


def analyse_private(M, X, frozen=(), model_kinds=None):
    """Decide for every memory instruction whether it may touch thread-shared memory.
    Sets i.attrs['priv'] = True for accesses that are provably thread-private:
      - through alloca-derived pointers (thread stack);
      - through pointers derived from an operator-new result that has not escaped yet (forward may-escape dataflow);
      - loads of harness globals that no thread function ever writes ('frozen').
    Returns a report dict (escapes of stack addresses etc.) for the evidence file."""
    report = {'stack_escapes': []}
    # ---- stack-derived registers (pessimistic fixpoint: every definition derived from stack)
    defs = collections.defaultdict(list)
    for b in X.blocks.values():
        for i in b:
            if i.dst: defs[i.dst].append(i)
    stack = set(r for r, il in defs.items() if all(i.op == 'alloca' for i in il))
    def derived_from(i, S):
        if i.op == 'alloca': return True
        if i.op == 'gep': return i.a[1][0] == 'reg' and i.a[1][1] in S
        if i.op == 'cast': return i.a[0] in ('bitcast', 'addrspacecast') and i.a[2][0] == 'reg' and i.a[2][1] in S
        if i.op in ('copy', 'freeze'): return i.a[0][0] == 'reg' and i.a[0][1] in S
        if i.op == 'phi': return all(v[0] == 'reg' and v[1] in S for (v, _) in i.a[0])
        if i.op == 'select': return all(v[0] == 'reg' and v[1] in S for v in (i.a[1], i.a[2]))
        return False
    changed = True
    while changed:
        changed = False
        for r, il in defs.items():
            if r in stack: continue
            if all(derived_from(i, stack) for i in il):
                stack.add(r); changed = True
    X.stack = stack
    # ---- fresh roots
    NEWFN = ('@_Znwm', '@_Znam', '@malloc', '@_ZnwmSt11align_val_t')
    roots = set()
    for b in X.blocks.values():
        for i in b:
            if i.op == 'call' and i.a[0][0] == 'glob' and i.a[0][1] in NEWFN and i.dst: roots.add(i.dst)
    root_of = {r: r for r in roots}
    changed = True
    while changed:
        changed = False
        for r, il in defs.items():
            if r in root_of: continue
            cands = set()
            ok = True
            for i in il:
                srcs = None
                if i.op == 'gep': srcs = [i.a[1]]
                elif i.op == 'cast' and i.a[0] == 'bitcast': srcs = [i.a[2]]
                elif i.op in ('copy', 'freeze'): srcs = [i.a[0]]
                elif i.op == 'phi': srcs = [v for (v, _) in i.a[0]]
                elif i.op == 'select': srcs = [i.a[1], i.a[2]]
                if srcs is None: ok = False; break
                for v in srcs:
                    if v[0] == 'reg' and v[1] in root_of: cands.add(root_of[v[1]])
                    else: ok = False
                if not ok: break
            if ok and len(cands) == 1:
                root_of[r] = next(iter(cands)); changed = True
    # pointers re-loaded from the thread's own stack may alias any fresh object whose address was stashed there
    stashed = set()
    for b in X.blocks.values():
        for i in b:
            if i.op == 'store' and i.a[0][0] == 'reg' and i.a[0][1] in root_of and i.a[1][0] == 'reg' and i.a[1][1] in stack:
                stashed.add(root_of[i.a[0][1]])
    taint = set()
    for r, il in defs.items():
        if any(i.op == 'load' and i.a[0][0] == 'reg' and i.a[0][1] in stack for i in il): taint.add(r)
    changed = True
    while changed:
        changed = False
        for r, il in defs.items():
            if r in taint: continue
            for i in il:
                if i.op in ('gep', 'cast', 'copy', 'freeze', 'phi', 'select', 'extractvalue', 'insertvalue'):
                    if any(v is not None and v[0] == 'reg' and v[1] in taint for v in ins_operands(i)):
                        taint.add(r); changed = True; break
    X.taint = taint
    # escape uses
    def escapes_in(i):
        """roots escaping at instruction i"""
        out = set()
        def R(v):
            return root_of.get(v[1]) if (v is not None and v[0] == 'reg') else None
        def TA(v):
            return v is not None and v[0] == 'reg' and v[1] in taint
        def ST(v):
            return v is not None and v[0] == 'reg' and v[1] in stack
        o, a = i.op, i.a
        if o == 'store':
            if R(a[0]) and not ST(a[1]): out.add(R(a[0]))
            if TA(a[0]) and not ST(a[1]): out.update(stashed)
        elif o == 'cas':
            for v in (a[2], a[3]):
                if R(v): out.add(R(v))
                if TA(v): out.update(stashed)
        elif o == 'rmw':
            if R(a[2]): out.add(R(a[2]))
            if TA(a[2]): out.update(stashed)
        elif o == 'call':
            cn = a[0][1] if a[0][0] == 'glob' else ''
            if cn.startswith('@llvm.memset') or cn.startswith(('@vp_assert', '@vp_assume', '@vp_g', '@vp_cover', '@vp_win_', '@vp_log')):
                pass
            elif cn.startswith(('@llvm.memcpy', '@llvm.memmove')):
                dst, src = a[1][0][1], a[1][1][1]
                if R(src) and not ST(dst) and not R(dst): out.add(R(src))
                if (ST(src) or TA(src)) and not ST(dst): out.update(stashed)
            else:
                for (_, v, _) in a[1]:
                    if R(v): out.add(R(v))
                    if TA(v) or ST(v): out.update(stashed)
        elif o in ('phi', 'select', 'copy', 'freeze', 'gep', 'cast'):
            if i.dst not in root_of or (o == 'cast' and a[0] != 'bitcast'):
                for v in ins_operands(i):
                    if R(v): out.add(R(v))
        elif o in ('ret', 'insertvalue', 'bin', 'reraise'):
            for v in ins_operands(i):
                if R(v): out.add(R(v))
                if o == 'ret' and TA(v): out.update(stashed)
        return out
    # forward dataflow
    esc_in = {b: set() for b in X.blocks}
    work = collections.deque(X.blocks.keys())
    esc_at = {}
    while work:
        b = work.popleft()
        cur = set(esc_in[b])
        for idx, i in enumerate(X.blocks[b]):
            esc_at[(b, idx)] = frozenset(cur)
            cur |= escapes_in(i)
            for t in successors(i):
                if not cur <= esc_in[t]:
                    esc_in[t] |= cur
                    if t not in work: work.append(t)
    frozen = set(frozen)
    def is_priv(v, b, idx):
        if v[0] == 'reg':
            if v[1] in stack: return True
            r = root_of.get(v[1])
            if r is not None and r not in esc_at[(b, idx)]: return True
            return False
        if v[0] == 'glob': return False
        if v[0] == 'cexpr': return False
        return False
    def vptr_derived(r, depth=0):
        # r = (gep of) a value loaded with type 'pointer to pointer to function' (the object's vptr)
        if depth > 3: return False
        for j in defs.get(r, []):
            if j.op == 'load':
                t = M.resolve(j.ty)
                return isinstance(t, PtrT) and isinstance(M.resolve(t.to), PtrT) and isinstance(M.resolve(M.resolve(t.to).to), FnT)
            if j.op == 'gep' and j.a[1][0] == 'reg': return vptr_derived(j.a[1][1], depth + 1)
            if j.op == 'cast' and j.a[0] == 'bitcast' and j.a[2][0] == 'reg': return vptr_derived(j.a[2][1], depth + 1)
        return False
    for b, il in X.blocks.items():
        for idx, i in enumerate(il):
            o, a = i.op, i.a
            if o == 'load':
                p = a[0]
                rt_ = M.resolve(i.ty)
                if is_priv(p, b, idx): i.attrs['priv'] = True
                elif isinstance(rt_, PtrT) and isinstance(M.resolve(rt_.to), FnT) and p[0] == 'reg' and vptr_derived(p[1]):
                    i.attrs['priv'] = True      # vtable slot: vtables are constant objects
                elif p[0] == 'glob' and p[1] in frozen: i.attrs['priv'] = True
                elif p[0] == 'cexpr' and p[1] == 'bitcast' and p[3][0] == 'glob' and p[3][1] in frozen: i.attrs['priv'] = True
            elif o == 'store':
                if is_priv(a[1], b, idx): i.attrs['priv'] = True
                if a[0][0] == 'reg' and a[0][1] in stack and not i.attrs.get('priv'):
                    report['stack_escapes'].append(i.raw.strip()[:120])
            elif o in ('rmw',):
                if is_priv(a[1], b, idx): i.attrs['priv'] = True
            elif o == 'cas':
                if is_priv(a[0], b, idx): i.attrs['priv'] = True
            elif o == 'call' and a[0][0] == 'glob' and a[0][1].startswith(('@llvm.memcpy', '@llvm.memmove')):
                if is_priv(a[1][0][1], b, idx) and is_priv(a[1][1][1], b, idx): i.attrs['priv'] = True
            elif o == 'call' and a[0][0] == 'glob' and a[0][1].startswith('@llvm.memset'):
                if is_priv(a[1][0][1], b, idx): i.attrs['priv'] = True
    X.root_of = root_of
    return report


def written_globals(M, X, out):
    """globals that X uses in any way other than as the direct address of a load."""
    for b in X.blocks.values():
        for i in b:
            ops = ins_operands(i)
            for k, v in enumerate(ops):
                gl = []; val_globs(v, gl)
                for g in gl:
                    if i.op == 'load' and (v[0] == 'glob' or (v[0] == 'cexpr' and v[1] == 'bitcast' and v[3][0] == 'glob')): continue
                    if i.op == 'call' and k == 0: continue
                    out.add(g)
