/* E6: native runtime for replaying a counter-example schedule on the REAL compiled code (instrumented by irinstr.py).
 * Harness threads are real pthreads, but exactly one runs at a time: a baton is handed over as the schedule says
 * ("thread t executes n events"), where events are the vp_rt_ev() calls inserted before every memory / synchronisation
 * instruction - the same events the generated C counts.  The pthread / condition-variable / clock externals of the code
 * under test are implemented here on top of the model functions of vpmodels.h (same state layout inside the real objects,
 * same nondeterministic draws in the same order), so the real library code sees the environment the encoding assumed.
 * usage: prog <setup|-> <entry:tid>... <final|->     env: VP_NONDET (draws), VP_SCHEDULE ("C tid n_ev draws drawn;S tid drawn;...") */
#define _GNU_SOURCE
#define VP_NATIVE 1
#include <dlfcn.h>
#include <pthread.h>
#include <stdio.h>
#include <stdlib.h>
#include <string.h>
#include <stdint.h>
#define VP_NT 6
/* the model / monitor functions of vpmodels.h are 'static inline' there; the separately compiled IR of the harness calls the
   harness API by name, so they are given external linkage in this one translation unit */
#define static
#define inline
#include "vpmodels.h"
#undef static
#undef inline

/* ---- nondeterministic draws */
static int vals[8192], nvals, pos_;
int vp_native_nondet(int kind) { (void)kind; return pos_ < nvals ? vals[pos_++] : 0; }
int vp_native_pos(void) { return pos_; }
static int failures;
void vp_native_assert_fail(int id, const char* txt) { printf("ASSERT-FAIL id=%d %s\n", id, txt); fflush(stdout); failures++; }
void vp_native_assume_fail(void) { printf("ASSUME-FAIL\n"); fflush(stdout); exit(3); }
void vp_native_dump(const int* g, int ng, unsigned cov) { (void)g; (void)ng; (void)cov; }
static __thread int me;
/* a blocking primitive whose condition is false in sequential context (setup / final): nobody else can run - the encoding reports
   the same self-deadlock (vp_plain_block) */
static void seq_block(void) {
  vp_native_assert_fail(-1, "blocking primitive not enabled in sequential/atomic context (self-deadlock)");
  printf("RT-END all_done=1 failures=%d\n", failures); fflush(stdout); _exit(1);
}
static void diverge(const char* why) { if (me == 0 && !strncmp(why, "B:", 2)) seq_block(); printf("RT-DIVERGENCE %s (thread %d)\n", why, vp_cur); fflush(stdout); exit(5); }

/* ---- baton */
static pthread_mutex_t bm = PTHREAD_MUTEX_INITIALIZER;
static pthread_cond_t bc = PTHREAD_COND_INITIALIZER;
static int turn = 0;                      /* 0 = scheduler, t = thread t */
static unsigned quota[VP_MAXT];
static int done_[VP_MAXT];
static int pend_kind[VP_MAXT]; static char* pend_a[VP_MAXT]; static char* pend_b[VP_MAXT];
static unsigned long store_events, park_store_events[VP_MAXT];
static void give(int t) { pthread_mutex_lock(&bm); turn = t; pthread_cond_broadcast(&bc); pthread_mutex_unlock(&bm); }
static void await(int t) { pthread_mutex_lock(&bm); while (turn != t) pthread_cond_wait(&bc, &bm); pthread_mutex_unlock(&bm); }
static void park(void) { int t = me; give(0); await(t); vp_cur = t; }
static void ev_point(int kind, int bkind, char* a, char* b) {
  int t = me;
  if (t == 0) return;
  pend_kind[t] = bkind; pend_a[t] = a; pend_b[t] = b; park_store_events[t] = store_events;
  while (quota[t] == 0) park();
  quota[t]--; pend_kind[t] = -1;
  if (kind == 1 || kind == 4) store_events++;
}
void vp_rt_ev(int kind) { ev_point(kind, VP_B_NONE, 0, 0); }

/* ---- harness API (harness/vp.h): thread-aware versions of engine/vp_native_real.cpp */
void vp_assert(_Bool c, int id) { if (!c) vp_native_assert_fail(id, "vp_assert"); }
void vp_assume(_Bool c) { if (!c) vp_native_assume_fail(); }
void vp_log(int tag, int v) { printf("LOG %d %d\n", tag, v); }
int32_t vp_mutex_owner(char* m) { return vp_mutex_owner_of(m); }
int32_t vp_rw_state(char* l) { return vp_rw_state_of(l); }

/* ---- model wrappers for the renamed externals */
int vp_rt_pthread_mutex_lock(char* m) { ev_point(4, VP_B_MUTEX, m, 0); if (!vp_mutex_free(m)) diverge("B:mutex_lock: not free"); return vp_mutex_lock(m); }
int vp_rt_pthread_mutex_trylock(char* m) { ev_point(4, VP_B_NONE, 0, 0); return vp_mutex_trylock(m); }
int vp_rt_pthread_mutex_unlock(char* m) { ev_point(4, VP_B_NONE, 0, 0); return vp_mutex_unlock(m); }
int vp_rt_pthread_mutex_clocklock(char* m, int c, char* ts) { ev_point(4, VP_B_TIMED, m, 0); if (!(vp_mutex_free(m) || vp_timeout_fires())) diverge("clocklock"); return vp_mutex_clocklock(m, c, ts); }
int vp_rt_pthread_mutex_timedlock(char* m, char* ts) { ev_point(4, VP_B_TIMED, m, 0); if (!(vp_mutex_free(m) || vp_timeout_fires())) diverge("timedlock"); return vp_mutex_timedlock(m, ts); }
int vp_rt_pthread_rwlock_rdlock(char* l) { ev_point(4, VP_B_RD, l, 0); if (!vp_rw_can_read(l)) diverge("B:rdlock"); return vp_rw_rdlock(l); }
int vp_rt_pthread_rwlock_wrlock(char* l) { ev_point(4, VP_B_WR, l, 0); if (!vp_rw_can_write(l)) diverge("B:wrlock"); return vp_rw_wrlock(l); }
int vp_rt_pthread_rwlock_tryrdlock(char* l) { ev_point(4, VP_B_NONE, 0, 0); return vp_rw_tryrdlock(l); }
int vp_rt_pthread_rwlock_trywrlock(char* l) { ev_point(4, VP_B_NONE, 0, 0); return vp_rw_trywrlock(l); }
int vp_rt_pthread_rwlock_clockrdlock(char* l, int c, char* ts) { ev_point(4, VP_B_TIMED, l, 0); if (!(vp_rw_can_read(l) || vp_timeout_fires())) diverge("clockrdlock"); return vp_rw_clockrdlock(l, c, ts); }
int vp_rt_pthread_rwlock_clockwrlock(char* l, int c, char* ts) { ev_point(4, VP_B_TIMED, l, 0); if (!(vp_rw_can_write(l) || vp_timeout_fires())) diverge("clockwrlock"); return vp_rw_clockwrlock(l, c, ts); }
int vp_rt_pthread_rwlock_timedrdlock(char* l, char* ts) { return vp_rt_pthread_rwlock_clockrdlock(l, 0, ts); }
int vp_rt_pthread_rwlock_timedwrlock(char* l, char* ts) { return vp_rt_pthread_rwlock_clockwrlock(l, 0, ts); }
int vp_rt_pthread_rwlock_unlock(char* l) { ev_point(4, VP_B_NONE, 0, 0); return vp_rw_unlock(l); }
void vp_rt__ZNSt18condition_variableC1Ev(char* cv) { vp_cv_init(cv); }
void vp_rt__ZNSt18condition_variableC2Ev(char* cv) { vp_cv_init(cv); }
void vp_rt__ZNSt18condition_variableD1Ev(char* cv) { (void)cv; }
void vp_rt__ZNSt18condition_variableD2Ev(char* cv) { (void)cv; }
void vp_rt__ZNSt18condition_variable10notify_allEv(char* cv) { ev_point(4, VP_B_NONE, 0, 0); vp_cv_notify_all(cv); }
void vp_rt__ZNSt18condition_variable10notify_oneEv(char* cv) { ev_point(4, VP_B_NONE, 0, 0); vp_cv_notify_one(cv); }
static int cv_wait_common(char* cv, char* mx, int timed, char* ts) {
  ev_point(4, VP_B_NONE, 0, 0);
  vp_cv_wait_begin(cv, mx);
  ev_point(4, timed ? VP_B_CVT : VP_B_CV, cv, mx);
  if (!vp_cv_can_wake(cv, mx, timed)) diverge("B:cv wake not enabled");
  return vp_cv_wait_end(cv, mx, timed, ts);
}
void vp_rt__ZNSt18condition_variable4waitERSt11unique_lockISt5mutexE(char* cv, char* lk) { cv_wait_common(cv, *(char**)lk, 0, 0); }
int vp_rt_pthread_cond_clockwait(char* cv, char* mx, int c, char* ts) { (void)c; return cv_wait_common(cv, mx, 1, ts); }
int vp_rt_pthread_cond_timedwait(char* cv, char* mx, char* ts) { return cv_wait_common(cv, mx, 1, ts); }
int vp_rt_sched_yield(void) {
  int t = me;
  if (t != 0) { vp_yepoch[t] = (unsigned)store_events; }
  ev_point(3, VP_B_YIELD, 0, 0);
  return 0;
}
int64_t vp_rt__ZNSt6chrono3_V212steady_clock3nowEv(void) { return vp_clock_now(); }
int64_t vp_rt__ZNSt6chrono3_V212system_clock3nowEv(void) { return vp_clock_now(); }

/* ---- scheduler */
typedef void (*fn_t)(void);
static fn_t entry[VP_MAXT];
static void* thread_main(void* arg) {
  int t = (int)(long)arg; me = t;
  await(t); vp_cur = t;
  while (quota[t] == 0 && 0) park();
  entry[t]();
  done_[t] = 1;
  give(0);
  return 0;
}
static int enabled_now(int t) {
  switch (pend_kind[t]) {
    case VP_B_MUTEX: return vp_mutex_free(pend_a[t]);
    case VP_B_RD: return vp_rw_can_read(pend_a[t]);
    case VP_B_WR: return vp_rw_can_write(pend_a[t]);
    case VP_B_CV: return ((((int*)pend_a[t])[1] >> t) & 1) && vp_mutex_free(pend_b[t]);
    case VP_B_CVT: return vp_mutex_free(pend_b[t]);
    case VP_B_YIELD: return park_store_events[t] != store_events;
    default: return 1;
  }
}
int main(int argc, char** argv) {
  const char* e = getenv("VP_NONDET");
  if (e) { char* s = strdup(e); for (char* t = strtok(s, ","); t && nvals < 8192; t = strtok(0, ",")) vals[nvals++] = atoi(t); }
  void* self = dlopen(0, RTLD_NOW);
  fn_t setup = 0, final = 0; int nt = 0; int tids[VP_MAXT];
  for (int i = 1; i < argc; i++) {
    char* a = strdup(argv[i]); if (!strcmp(a, "-")) continue;
    char* c = strchr(a, ':');
    if (c) { *c = 0; int t = atoi(c + 1); entry[t] = (fn_t)dlsym(self, a); if (!entry[t]) { printf("RT-ERROR no symbol %s\n", a); return 4; } tids[nt++] = t; }
    else if (i == 1) setup = (fn_t)dlsym(self, a);
    else final = (fn_t)dlsym(self, a);
  }
  me = 0; vp_cur = 0;
  if (setup) setup();
  int spur = getenv("VP_SPUR") ? atoi(getenv("VP_SPUR")) : 0;
  for (int k = 0; k < nt; k++) { vp_spur[tids[k]] = spur; pend_kind[tids[k]] = -1; }
  pthread_t th[VP_MAXT];
  for (int k = 0; k < nt; k++) pthread_create(&th[k], 0, thread_main, (void*)(long)tids[k]);
  const char* sc = getenv("VP_SCHEDULE");
  char* s = strdup(sc ? sc : "");
  for (char* item = strtok(s, ";"); item; item = strtok(0, ";")) {
    char kind; int t, nev = 0, draws = 0, drawn = 1;
    if (item[0] == 'S') { sscanf(item, "%c %d %d", &kind, &t, &drawn); if (drawn) vp_native_nondet(2); continue; }
    sscanf(item, "%c %d %d %d %d", &kind, &t, &nev, &draws, &drawn);
    if (drawn) vp_native_nondet(2);               /* the budget draw of this slot */
    if (done_[t]) diverge("schedule runs a finished thread");
    int p0 = pos_;
    quota[t] = (unsigned)nev;
    give(t); await(0);
    if (!done_[t] && quota[t] != 0 && nev < 100000000) diverge("thread stopped with quota left");
    while (pos_ - p0 < draws && draws < 100000) vp_native_nondet(2);   /* draws of an enabling condition that was evaluated and found false */
    if (pos_ - p0 > draws && draws < 100000) diverge("more draws consumed than in the encoding");
    /* a context without a drawn budget is a solo phase: scheduled alone with an unlimited budget the thread must finish */
    if (!drawn && !done_[t]) vp_native_assert_fail(-1, "solo run: thread cannot finish although it is the only one scheduled");
    /* the thread stands at a lock acquisition that is not enabled: same bookkeeping and monitor (C02 'reader blocked merely by
       readers') as the encoding runs when a context ends blocked */
    if (!done_[t] && (pend_kind[t] == VP_B_MUTEX || pend_kind[t] == VP_B_RD || pend_kind[t] == VP_B_WR) && !enabled_now(t)) {
      vp_cur = t; vp_blocked(t, pend_kind[t], pend_a[t], pend_b[t]); vp_cur = 0;
    }
  }
  vp_cur = 0; me = 0;
  int all = 1, can = 0;
  for (int k = 0; k < nt; k++) { int t = tids[k]; if (!done_[t]) { all = 0; if (enabled_now(t)) can = 1; } }
  if (!all && !can) vp_native_assert_fail(-1, "deadlock: unfinished threads exist and none of them can move");
  if (all && final) final();
  printf("RT-END all_done=%d failures=%d\n", all, failures); fflush(stdout);
  _exit(failures ? 1 : 0);
}
