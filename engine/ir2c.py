#!/usr/bin/env python3
"""ir2c: LLVM-14 IR (clang++ -O1 of /repo headers + a harness) -> one C file for cbmc.

   query = {
     'setup': 'vp_setup',                 # plain, runs first (thread id 0)
     'threads': [('W','vp_writer'), ('R1','vp_reader'), ('R2','vp_reader')],
     'rounds': 3, 'order': [0,1,2], 'maxb': 255,
     'solo': ['R1'],                      # optional phase 2: these run alone, unlimited budget, after the rounds
     'final': 'vp_final',                 # plain, runs when all threads are done
     'seq': ['vp_seq'],                   # alternative to threads: plain entry points run one after another
     'opts': {'yield_blocks': True, 'hb': False, 'spur': 1, 'noinline': [...]},
   }
"""
import sys, re, json, collections
from irparse import *
from irxform import *
from iremit import *

STD_EXC_BASES = {
    '@_ZTISt12out_of_range': '@_ZTISt11logic_error', '@_ZTISt11logic_error': '@_ZTISt9exception',
    '@_ZTISt13runtime_error': '@_ZTISt9exception', '@_ZTISt12future_error': '@_ZTISt11logic_error',
    '@_ZTISt12system_error': '@_ZTISt13runtime_error', '@_ZTISt9bad_alloc': '@_ZTISt9exception',
    '@_ZTISt17bad_function_call': '@_ZTISt9exception', '@_ZTISt12length_error': '@_ZTISt11logic_error',
    '@_ZTISt16invalid_argument': '@_ZTISt11logic_error',
}


class Translator:
    def __init__(s, ll_text, query):
        s.M = parse_module(ll_text)
        s.q = query
        s.opts = query.get('opts', {})
        s.G = CGen(s.M, s.opts)
        s.report = {'threads': {}, 'functions_encoded': [], 'plain_functions': [], 'stack_escapes': [], 'externals': []}

    def build_x(s, fname, inline):
        B = Builder(s.M, inline=inline, noinline=s.opts.get('noinline', ()))
        X = B.build('@' + fname if not fname.startswith('@') else fname)
        prune_unreachable(X)
        if fold_constants(s.M, X): prune_unreachable(X)
        return X, B

    def translate(s):
        M, G, q = s.M, s.G, s.q
        threads = q.get('threads', [])
        # ---- build thread XFuncs
        tx = {}
        for (tn, fn) in threads:
            if fn not in tx:
                X, B = s.build_x(fn, True)
                tx[fn] = (X, B)
        # frozen globals: never used by thread code except as the address of a load
        written = set()
        plain_seen = {}
        work = []
        for fn, (X, B) in tx.items():
            written_globals(M, X, written)
            work += list(B.plain_needed)
        # plain functions reachable from threads (called or address taken) may write globals too
        seen = set()
        def scan_plain(fn):
            if fn in seen or fn not in M.funcs: return
            seen.add(fn)
            X, B = s.build_x(fn, False)
            plain_seen[fn] = (X, B)
            written_globals(M, X, written)
            for g in B.plain_needed: scan_plain(g)
            for b in X.blocks.values():
                for i in b:
                    for v in ins_operands(i):
                        gl = []; val_globs(v, gl)
                        for g in gl:
                            if g in M.funcs: scan_plain(g)
        for g in work: scan_plain(g)
        for fn, (X, B) in tx.items():
            for b in X.blocks.values():
                for i in b:
                    for v in ins_operands(i):
                        gl = []; val_globs(v, gl)
                        for g in gl:
                            if g in M.funcs: scan_plain(g)
        # vtables etc. reachable through global initialisers
        changed = True
        ginit_seen = set()
        def scan_ginit(g):
            if g in ginit_seen or g not in M.globs: return
            ginit_seen.add(g)
            G_ = M.globs[g]
            if G_.init is None: return
            gl = []; val_globs(G_.init if G_.init[0] != 'alias' else G_.init[1], gl)
            for x in gl:
                if x in M.funcs: scan_plain(x)
                else: scan_ginit(x)
        for fn, (X, B) in list(tx.items()) + list(plain_seen.items()):
            for b in X.blocks.values():
                for i in b:
                    for v in ins_operands(i):
                        gl = []; val_globs(v, gl)
                        for g in gl: scan_ginit(g)
        frozen = set(g for g in M.globs if g not in written)
        s.frozen = frozen
        # ---- analyse + emit threads
        decls = []; bodies = []
        for (tn, fn) in threads:
            X, B = tx[fn]
            rep = analyse_private(M, X, frozen=frozen)
            d, body, vis = G.emit(X, 'thread', tname=tn)
            decls.append(d); bodies.append(body)
            s.report['threads'][tn] = {'entry': fn, 'visible_ops': len(vis), 'blocks': len(X.blocks),
                                       'inlined_instances': len(X.inlined),
                                       'ops': [f"{k}:{kind}:{desc}" for (k, kind, desc) in vis]}
            s.report['stack_escapes'] += rep['stack_escapes']
            for f in X.inlined:
                if f not in s.report['functions_encoded']: s.report['functions_encoded'].append(f)
            if fn not in s.report['functions_encoded']: s.report['functions_encoded'].append('@' + fn)
        # ---- plain functions: setup / final / seq + everything they or the threads call
        plain_out = collections.OrderedDict()
        def need_plain(fn):
            if not fn.startswith('@'): fn = '@' + fn
            if fn in plain_out: return
            if fn not in M.funcs: raise Unsupported("undefined function " + fn)
            plain_out[fn] = None
            X, B = plain_seen.get(fn) or s.build_x(fn, False)
            analyse_private(M, X, frozen=())
            proto, body, _ = G.emit(X, 'plain')
            plain_out[fn] = (proto, body)
            for g in B.plain_needed: need_plain(g)
        for k in ('setup', 'final'):
            if q.get(k): need_plain(q[k])
        for fn in q.get('seq', []): need_plain(fn)
        # fixpoint over functions whose address was taken or that were called from emitted code
        while True:
            todo = [f for f in G.used_funcs if f not in plain_out]
            if not todo: break
            for f in todo: need_plain(f)
        s.report['plain_functions'] = list(plain_out.keys())
        for f in plain_out:
            if f not in s.report['functions_encoded']: s.report['functions_encoded'].append(f)
        # ---- globals (emit after functions: emission registers the used ones); initialisers may pull in more
        gtext = s.emit_globals()
        while True:
            todo = [f for f in G.used_funcs if f not in plain_out]
            if not todo: break
            for f in todo: need_plain(f)
            gtext = s.emit_globals()
        # ---- assemble
        out = []
        out.append('/* generated by /verif/engine/ir2c.py - do not edit */')
        if s.opts.get('hb'): out.append('#define VP_HB 1')
        out.append(f'#define VP_NT {len(threads)}')
        out.append('#include "vpmodels.h"')
        if s.opts.get('hb'): out.append('#include "vphb.h"')
        for key, (nm, t) in G.aggs.items():
            out.append("typedef struct { " + ' '.join(f"{'char*' if False else G.ctype(ft)} f{i};" for i, ft in enumerate(M.resolve(t).fields)) + f" }} {nm};")
        # aggs may have been extended by the ctype calls above
        for key, (hn, fields, tot, lv) in G.hs.items():
            out.append(f"struct {hn} {{ {fields} }}; _Static_assert(sizeof(struct {hn}) == {tot}, \"layout {hn}\");")
        # external function stubs (address taken only)
        for g in sorted(G.ext_used):
            out.append(f"static void {G.fname(g)}(void) {{ __CPROVER_assert(0, \"call of unmodelled external {g[1:]}\"); }}")
        for fn, (proto, body) in plain_out.items(): out.append("static " + proto if False else proto)
        out.append(gtext)
        out.append(s.emit_typeinfo())
        for d in decls: out.append(d)
        for fn, (proto, body) in plain_out.items(): out.append(body)
        for b in bodies: out.append(b)
        out.append(s.emit_main())
        # typedef section must precede: rebuild agg typedefs at the very top if new ones appeared late
        text = '\n'.join(out)
        return text

    # ---------------- globals
    def init_leaves(s, ty, v, off, out):
        M, G = s.M, s.G
        rt = M.resolve(ty)
        if v is None or v[0] in ('zero', 'undef'): return
        if isinstance(rt, StructT):
            if v[0] != 'agg': raise Unsupported("struct initialiser " + repr(v)[:80])
            for k, (ft, fv) in enumerate(v[2]): s.init_leaves(ft, fv, off + M.field_off(rt, k), out)
        elif isinstance(rt, ArrT):
            esz = M.sizeof(rt.el)
            if v[0] == 'str':
                for k, ch in enumerate(v[1]):
                    if ch: out[off + k] = str(ch)
            elif v[0] == 'agg':
                for k, (et, ev) in enumerate(v[2]): s.init_leaves(et, ev, off + k * esz, out)
            else: raise Unsupported("array initialiser " + repr(v)[:80])
        else:
            if v[0] == 'int' and v[1] == 0: return
            if v[0] == 'null': return
            out[off] = G.val(ty, v, {}, want_ptr=isinstance(rt, PtrT))

    def emit_globals(s):
        M, G = s.M, s.G
        lines = []
        done = set()
        while True:
            todo = [g for g in G.used_globs if g not in done]
            if not todo: break
            for g in todo:
                done.add(g)
                Gl = M.globs[g]
                nm = G.gname(g)
                if Gl.init is None:
                    # external object (typeinfo, vtable of a libstdc++ class, ...): opaque storage, only its address is used
                    try: sz = max(M.sizeof(Gl.ty), 8)
                    except Unsupported: sz = 16
                    lines.append((g, f"char {nm}[{sz}];"))
                    continue
                rt = M.resolve(Gl.ty)
                vals = {}
                s.init_leaves(Gl.ty, Gl.init, 0, vals)
                if isinstance(rt, (IntT, PtrT)):
                    lines.append((g, f"{G.ctype(rt)} {nm}" + (f" = {vals[0]};" if 0 in vals else ";")))
                    continue
                hn = G.heap_struct(Gl.ty)
                lv = G.hs[repr(Gl.ty) if not isinstance(Gl.ty, NamedT) else Gl.ty.name][3]
                inits = []
                for (off, ct, cnt, sz) in lv:
                    if cnt == 1:
                        if off in vals: inits.append(f".m{off} = {vals[off]}")
                    else:
                        els = {}
                        for k in range(cnt):
                            if off + k * sz in vals: els[k] = vals[off + k * sz]
                        if els:
                            inits.append(f".m{off} = {{" + ', '.join(f"[{k}] = {e}" for k, e in els.items()) + "}")
                lines.append((g, f"struct {hn} {nm}" + (" = { " + ', '.join(inits) + " };" if inits else ";")))
        # forward declarations first (initialisers may reference each other)
        fwd = []
        for (g, l) in lines:
            d = l.split('=')[0].strip().rstrip(';')
            fwd.append("extern " + d + ";")
        return '\n'.join(fwd) + '\n' + '\n'.join(l for (_, l) in lines)

    def emit_typeinfo(s):
        M, G = s.M, s.G
        # base-class relation among typeinfo objects that exist in this file
        base = dict(STD_EXC_BASES)
        for g, Gl in M.globs.items():
            if g.startswith('@_ZTI') and Gl.init is not None and Gl.init[0] == 'agg' and len(Gl.init[2]) == 3:
                gl = []; val_globs(Gl.init[2][2][1], gl)
                if gl and gl[0].startswith('@_ZTI'): base[g] = gl[0]
        tis = [g for g in G.used_globs if g.startswith('@_ZTI')]
        lines = ["static inline int vp_type_matches(char* thrown, char* clause) {", "  if (thrown == clause) return 1;"]
        for t in tis:
            b = base.get(t); chain = []
            while b is not None and b not in chain: chain.append(b); b = base.get(b)
            for c in chain:
                if c in G.used_globs:
                    lines.append(f"  if (thrown == (char*)&{G.gname(t)} && clause == (char*)&{G.gname(c)}) return 1;")
        lines.append("  return 0;")
        lines.append("}")
        # typeinfo objects the models themselves throw
        extra = []
        for nm, g in (('VP_TI_INT', '@_ZTIi'), ('VP_TI_OUT_OF_RANGE', '@_ZTISt12out_of_range'), ('VP_TI_FUTURE_ERROR', '@_ZTISt12future_error')):
            if g in G.used_globs: extra.append(f"#define {nm} ((char*)&{G.gname(g)})")
            else: extra.append(f"static char vp_dummy_{nm}[8];\n#define {nm} ((char*)vp_dummy_{nm})")
        extra.append("static inline void vp_throw_now(int32_t code) { char* o = vp_cxa_allocate_exception(4); *(int32_t*)o = code; vp_cxa_throw(o, VP_TI_INT, (char*)0); }")
        extra.append("static inline void vp_throw_out_of_range(char* fmt) { (void)fmt; char* o = vp_cxa_allocate_exception(16); vp_cxa_throw(o, VP_TI_OUT_OF_RANGE, (char*)0); }")
        extra.append("static inline void vp_throw_future_error(int32_t code) { char* o = vp_cxa_allocate_exception(32); *(int32_t*)(o + 16) = code; vp_cxa_throw(o, VP_TI_FUTURE_ERROR, (char*)0); }")
        return '\n'.join(extra + lines)

    # ---------------- scheduler
    def emit_main(s):
        q, G = s.q, s.G
        threads = q.get('threads', [])
        NT = len(threads)
        R = q.get('rounds', 1)
        order = q.get('order', list(range(NT)))
        maxb = q.get('maxb', 255)
        spur = s.opts.get('spur', 0)
        L = []
        L.append("int main(void) {")
        L.append("  vp_cur = 0;")
        if s.opts.get('hb'): L.append("  vp_hb_init();")
        if q.get('setup'): L.append(f"  {G.fname('@' + q['setup'])}();")
        L.append("  __CPROVER_assume(!vp_exc.pending);")
        for fn in q.get('seq', []):
            L.append(f"  {G.fname('@' + fn)}();")
            L.append('  VP_CHECK(!vp_exc.pending, "uncaught exception leaves a sequential entry point");')
        for t in range(NT):
            L.append(f"  vp_spur[{t + 1}] = {spur};")
        if s.opts.get('hb'): L.append("  vp_hb_fork();")
        def ctx(t, budget_expr):
            tn = threads[t][0]
            drawn = 1 if budget_expr == 'b' else 0
            return (f"  if (!{tn}_done) {{ vp_cur = {t + 1}; vp_blk_kind[{t + 1}] = VP_B_NONE; {tn}_budget = {budget_expr}; VP_CTX_BEGIN({t + 1}); thr_{tn}(); VP_CTX_END({t + 1}, \"{tn}\", {tn}_done, {drawn}); }} else {{ VP_CTX_SKIP({t + 1}, {drawn}); }}")
        for r in range(R):
            for t in order:
                L.append(f"  {{ unsigned b = VP_BUDGET({maxb}); ")
                L.append("  " + ctx(t, "b") + " }")
        alld = ' && '.join(f"{tn}_done" for (tn, _) in threads) or '1'
        # optional solo phases: named threads run alone with unlimited budget
        for spec in q.get('solo', []):
            for tn in spec:
                t = [x[0] for x in threads].index(tn)
                L.append(ctx(t, "1000000u"))
                # run alone with an unlimited budget the thread must finish: nothing it needs may depend on a suspended thread
                L.append(f'  VP_CHECK({tn}_done, "solo run: thread {tn} cannot finish although it is the only one scheduled (it waits for a suspended thread)");')
        L.append("  vp_cur = 0;")
        L.append(f"  int vp_all_done = ({alld});")
        if s.opts.get('hb'): L.append("  if (vp_all_done) vp_hb_joinall();")
        if NT:
            can = ' || '.join(f"(!{tn}_done && vp_enabled({t + 1}))" for t, (tn, _) in enumerate(threads))
            if not s.opts.get('no_deadlock_check'):
                L.append(f'  VP_CHECK(vp_all_done || ({can}), "deadlock: unfinished threads exist and none of them can move");')
        if q.get('final'):
            L.append(f"  if (vp_all_done) {{ {G.fname('@' + q['final'])}(); }}")
        L.append("#ifdef VP_WITNESS")
        cov = q.get('cover', 0)
        L.append("#ifdef VP_MUST_COVER")
        L.append(f'  __CPROVER_assert(!(vp_all_done && (vp_covered & ({cov}u | VP_MUST_COVER)) == ({cov}u | VP_MUST_COVER)), "witness: required coverage state reachable (must FAIL)");')
        L.append("#else")
        L.append(f'  __CPROVER_assert(!(vp_all_done && (vp_covered & {cov}u) == {cov}u), "witness: all threads can finish inside the bound (must FAIL)");')
        L.append("#endif")
        L.append("#endif")
        L.append("#ifdef VP_NATIVE")
        L.append("  vp_native_dump(vp_ghost, VP_NG, vp_covered);")
        for t_, (tn, _) in enumerate(threads): L.append(f'  printf("DONE {tn} %d\\n", {tn}_done); printf("BLOCKS {tn} %u\\n", vp_blockcount_[{t_ + 1}]);')
        L.append("#endif")
        L.append("  return 0;")
        L.append("}")
        return '\n'.join(L)


def translate(ll_text, query):
    T = Translator(ll_text, query)
    text = T.translate()
    # agg typedefs / heap structs that were registered late are all in G by now; header order is fixed in translate()
    return text, T.report


def main():
    import argparse
    ap = argparse.ArgumentParser()
    ap.add_argument('ll'); ap.add_argument('out'); ap.add_argument('--query', required=True, help='JSON query (file or inline)')
    a = ap.parse_args()
    q = json.load(open(a.query)) if not a.query.strip().startswith('{') else json.loads(a.query)
    text, rep = translate(open(a.ll).read(), q)
    open(a.out, 'w').write(text)
    for tn, r in rep['threads'].items():
        sys.stderr.write(f"{tn}: {r['visible_ops']} visible ops, {r['blocks']} blocks, {r['inlined_instances']} inlined\n")


if __name__ == '__main__':
    main()
