#!/usr/bin/env python3
"""XFunc -> C.  Two modes from one code path:
   plain      ordinary C function (setup / final checks / indirect-call targets / sequential harnesses)
   resumable  Lazy-CSeq style step machine: entered at the top on every invocation, regions of invisible
              instructions guarded by the run flag, every visible op a numbered context-switch point."""
import re, collections
from irparse import *
from irxform import *

# ---------------------------------------------------------------- environment models (see vpmodels.h)
# kind: pure (invisible), vis (visible, never blocks), block (visible, blocks while !en), special
MODELS = {
    '@pthread_mutex_lock': dict(c='vp_mutex_lock', kind='block', en='vp_mutex_free', bk='VP_B_MUTEX'),
    '@pthread_mutex_trylock': dict(c='vp_mutex_trylock', kind='vis'),
    '@pthread_mutex_unlock': dict(c='vp_mutex_unlock', kind='vis', wr=True),
    '@pthread_mutex_clocklock': dict(c='vp_mutex_clocklock', kind='tblock', en='vp_mutex_free', bk='VP_B_MUTEX'),
    '@pthread_mutex_timedlock': dict(c='vp_mutex_timedlock', kind='tblock', en='vp_mutex_free', bk='VP_B_MUTEX'),
    '@pthread_rwlock_rdlock': dict(c='vp_rw_rdlock', kind='block', en='vp_rw_can_read', bk='VP_B_RD'),
    '@pthread_rwlock_wrlock': dict(c='vp_rw_wrlock', kind='block', en='vp_rw_can_write', bk='VP_B_WR'),
    '@pthread_rwlock_tryrdlock': dict(c='vp_rw_tryrdlock', kind='vis'),
    '@pthread_rwlock_trywrlock': dict(c='vp_rw_trywrlock', kind='vis'),
    '@pthread_rwlock_clockrdlock': dict(c='vp_rw_clockrdlock', kind='tblock', en='vp_rw_can_read', bk='VP_B_RD'),
    '@pthread_rwlock_clockwrlock': dict(c='vp_rw_clockwrlock', kind='tblock', en='vp_rw_can_write', bk='VP_B_WR'),
    '@pthread_rwlock_timedrdlock': dict(c='vp_rw_timedrdlock', kind='tblock', en='vp_rw_can_read', bk='VP_B_RD'),
    '@pthread_rwlock_timedwrlock': dict(c='vp_rw_timedwrlock', kind='tblock', en='vp_rw_can_write', bk='VP_B_WR'),
    '@pthread_rwlock_unlock': dict(c='vp_rw_unlock', kind='vis', wr=True),
    '@_ZNSt18condition_variableC1Ev': dict(c='vp_cv_init', kind='pure'),
    '@_ZNSt18condition_variableC2Ev': dict(c='vp_cv_init', kind='pure'),
    '@_ZNSt18condition_variableD1Ev': dict(c='vp_cv_destroy', kind='pure'),
    '@_ZNSt18condition_variableD2Ev': dict(c='vp_cv_destroy', kind='pure'),
    '@_ZNSt18condition_variable10notify_allEv': dict(c='vp_cv_notify_all', kind='vis', wr=True),
    '@_ZNSt18condition_variable10notify_oneEv': dict(c='vp_cv_notify_one', kind='vis', wr=True),
    '@_ZNSt18condition_variable4waitERSt11unique_lockISt5mutexE': dict(kind='cvwait'),
    '@pthread_cond_clockwait': dict(kind='cvclockwait'),
    '@pthread_cond_timedwait': dict(kind='cvtimedwait'),
    '@sched_yield': dict(kind='yield'),
    '@nanosleep': dict(c='vp_nanosleep', kind='vis'),
    '@_ZNSt6chrono3_V212steady_clock3nowEv': dict(c='vp_clock_now', kind='pure'),
    '@_ZNSt6chrono3_V212system_clock3nowEv': dict(c='vp_clock_now', kind='pure'),
    '@__errno_location': dict(c='vp_errno_location', kind='pure'),
    '@_Znwm': dict(kind='new'), '@_Znam': dict(kind='new'),
    '@_ZdlPv': dict(c='vp_delete', kind='vis', wr=True), '@_ZdaPv': dict(c='vp_delete', kind='vis', wr=True),
    '@_ZdlPvm': dict(c='vp_delete_sized', kind='vis', wr=True),
    '@free': dict(c='vp_delete', kind='vis', wr=True),
    '@_ZSt20__throw_system_errori': dict(c='vp_unreachable_throw_i', kind='pure'),
    '@_ZSt20__throw_length_errorPKc': dict(c='vp_unreachable_throw_p', kind='pure'),
    '@_ZSt17__throw_bad_allocv': dict(c='vp_unreachable_throw_v', kind='pure'),
    '@_ZSt28__throw_bad_array_new_lengthv': dict(c='vp_unreachable_throw_v', kind='pure'),
    '@_ZSt25__throw_bad_function_callv': dict(c='vp_unreachable_throw_v', kind='pure'),
    '@_ZSt19__throw_logic_errorPKc': dict(c='vp_unreachable_throw_p', kind='pure'),
    '@_ZSt24__throw_out_of_range_fmtPKcz': dict(c='vp_throw_out_of_range', kind='pure', vararg=1),
    '@_ZSt20__throw_future_errori': dict(c='vp_throw_future_error', kind='pure'),
    '@__cxa_allocate_exception': dict(c='vp_cxa_allocate_exception', kind='pure'),
    '@__cxa_free_exception': dict(c='vp_cxa_free_exception', kind='pure'),
    '@__cxa_throw': dict(c='vp_cxa_throw', kind='pure'),
    '@_ZNSt12out_of_rangeC1EPKc': dict(c='vp_exc_ctor', kind='pure'), '@_ZNSt12out_of_rangeC1ERKNSt7__cxx1112basic_stringIcSt11char_traitsIcESaIcEEE': dict(c='vp_exc_ctor', kind='pure'),
    '@_ZNSt12out_of_rangeC2EPKc': dict(c='vp_exc_ctor', kind='pure'), '@_ZNSt12out_of_rangeC2ERKNSt7__cxx1112basic_stringIcSt11char_traitsIcESaIcEEE': dict(c='vp_exc_ctor', kind='pure'),
    '@_ZNSt11logic_errorC1EPKc': dict(c='vp_exc_ctor', kind='pure'), '@_ZNSt11logic_errorC1ERKNSt7__cxx1112basic_stringIcSt11char_traitsIcESaIcEEE': dict(c='vp_exc_ctor', kind='pure'),
    '@_ZNSt11logic_errorC2EPKc': dict(c='vp_exc_ctor', kind='pure'), '@_ZNSt11logic_errorC2ERKNSt7__cxx1112basic_stringIcSt11char_traitsIcESaIcEEE': dict(c='vp_exc_ctor', kind='pure'),
    '@_ZNSt13runtime_errorC1EPKc': dict(c='vp_exc_ctor', kind='pure'), '@_ZNSt13runtime_errorC1ERKNSt7__cxx1112basic_stringIcSt11char_traitsIcESaIcEEE': dict(c='vp_exc_ctor', kind='pure'),
    '@_ZNSt13runtime_errorC2EPKc': dict(c='vp_exc_ctor', kind='pure'), '@_ZNSt13runtime_errorC2ERKNSt7__cxx1112basic_stringIcSt11char_traitsIcESaIcEEE': dict(c='vp_exc_ctor', kind='pure'),
    '@_ZNSt16invalid_argumentC1EPKc': dict(c='vp_exc_ctor', kind='pure'), '@_ZNSt16invalid_argumentC1ERKNSt7__cxx1112basic_stringIcSt11char_traitsIcESaIcEEE': dict(c='vp_exc_ctor', kind='pure'),
    '@_ZNSt16invalid_argumentC2EPKc': dict(c='vp_exc_ctor', kind='pure'), '@_ZNSt16invalid_argumentC2ERKNSt7__cxx1112basic_stringIcSt11char_traitsIcESaIcEEE': dict(c='vp_exc_ctor', kind='pure'),
    '@_ZNSt12length_errorC1EPKc': dict(c='vp_exc_ctor', kind='pure'), '@_ZNSt12length_errorC1ERKNSt7__cxx1112basic_stringIcSt11char_traitsIcESaIcEEE': dict(c='vp_exc_ctor', kind='pure'),
    '@_ZNSt12length_errorC2EPKc': dict(c='vp_exc_ctor', kind='pure'), '@_ZNSt12length_errorC2ERKNSt7__cxx1112basic_stringIcSt11char_traitsIcESaIcEEE': dict(c='vp_exc_ctor', kind='pure'),
    '@_ZNSt12domain_errorC1EPKc': dict(c='vp_exc_ctor', kind='pure'), '@_ZNSt12domain_errorC1ERKNSt7__cxx1112basic_stringIcSt11char_traitsIcESaIcEEE': dict(c='vp_exc_ctor', kind='pure'),
    '@_ZNSt12domain_errorC2EPKc': dict(c='vp_exc_ctor', kind='pure'), '@_ZNSt12domain_errorC2ERKNSt7__cxx1112basic_stringIcSt11char_traitsIcESaIcEEE': dict(c='vp_exc_ctor', kind='pure'),
    '@_ZNSt11range_errorC1EPKc': dict(c='vp_exc_ctor', kind='pure'), '@_ZNSt11range_errorC1ERKNSt7__cxx1112basic_stringIcSt11char_traitsIcESaIcEEE': dict(c='vp_exc_ctor', kind='pure'),
    '@_ZNSt11range_errorC2EPKc': dict(c='vp_exc_ctor', kind='pure'), '@_ZNSt11range_errorC2ERKNSt7__cxx1112basic_stringIcSt11char_traitsIcESaIcEEE': dict(c='vp_exc_ctor', kind='pure'),
    '@_ZNSt14overflow_errorC1EPKc': dict(c='vp_exc_ctor', kind='pure'), '@_ZNSt14overflow_errorC1ERKNSt7__cxx1112basic_stringIcSt11char_traitsIcESaIcEEE': dict(c='vp_exc_ctor', kind='pure'),
    '@_ZNSt14overflow_errorC2EPKc': dict(c='vp_exc_ctor', kind='pure'), '@_ZNSt14overflow_errorC2ERKNSt7__cxx1112basic_stringIcSt11char_traitsIcESaIcEEE': dict(c='vp_exc_ctor', kind='pure'),
    '@__cxa_rethrow': dict(c='vp_cxa_rethrow', kind='pure'),
    '@__cxa_begin_catch': dict(c='vp_cxa_begin_catch', kind='pure'),
    '@__cxa_end_catch': dict(c='vp_cxa_end_catch', kind='pure'),
    '@_ZSt9terminatev': dict(c='vp_terminate', kind='pure'),
    '@_ZSt21__glibcxx_assert_failPKciS0_S0_': dict(c='vp_glibcxx_assert_fail', kind='pure', vararg=0),
    '@abort': dict(c='vp_terminate', kind='pure'),
    '@__cxa_pure_virtual': dict(c='vp_terminate', kind='pure'),
    '@__cxa_guard_acquire': dict(c='vp_cxa_guard_acquire', kind='block', en='vp_guard_can_enter', bk='VP_B_GUARD'),
    '@__cxa_guard_release': dict(c='vp_cxa_guard_release', kind='vis', wr=True),
    '@__cxa_guard_abort': dict(c='vp_cxa_guard_release', kind='vis', wr=True),
    '@__cxa_atexit': dict(c='vp_cxa_atexit', kind='pure'),
    '@_ZSt17current_exceptionv': dict(c='vp_current_exception', kind='pure'),
    '@_ZSt17rethrow_exceptionNSt15__exception_ptr13exception_ptrE': dict(c='vp_rethrow_exception', kind='pure'),
    '@_ZNSt15__exception_ptr13exception_ptr9_M_addrefEv': dict(c='vp_eptr_addref', kind='pure'),
    '@_ZNSt15__exception_ptr13exception_ptr10_M_releaseEv': dict(c='vp_eptr_release', kind='pure'),
    '@_ZNSt9exceptionD2Ev': dict(c='vp_noop_p', kind='pure'), '@_ZNSt9exceptionD1Ev': dict(c='vp_noop_p', kind='pure'),
    '@_ZNSt15__exception_ptr13exception_ptr4swapERS0_': dict(c='vp_eptr_swap', kind='pure'),
    '@_ZSt29_Rb_tree_insert_and_rebalancebPSt18_Rb_tree_node_baseS0_RS_': dict(c='vp_rb_insert', kind='mem'),
    '@_ZSt18_Rb_tree_incrementPSt18_Rb_tree_node_base': dict(c='vp_rb_increment', kind='mem'),
    '@_ZSt18_Rb_tree_incrementPKSt18_Rb_tree_node_base': dict(c='vp_rb_increment', kind='mem'),
    '@_ZSt18_Rb_tree_decrementPSt18_Rb_tree_node_base': dict(c='vp_rb_decrement', kind='mem'),
    '@_ZSt18_Rb_tree_decrementPKSt18_Rb_tree_node_base': dict(c='vp_rb_decrement', kind='mem'),
    '@_ZSt28_Rb_tree_rebalance_for_erasePSt18_Rb_tree_node_baseRS_': dict(c='vp_rb_erase', kind='mem'),
    '@memcmp': dict(c='vp_memcmp', kind='mem'), '@strlen': dict(c='vp_strlen', kind='mem'),
    '@memchr': dict(c='vp_memchr', kind='mem'), '@strcmp': dict(c='vp_strcmp', kind='mem'),
    '@bcmp': dict(c='vp_memcmp', kind='mem'),
    '@_ZNSt7__cxx1112basic_stringIcSt11char_traitsIcESaIcEE9_M_createERmm': dict(c='vp_string_create', kind='pure'),
    # harness API (vp.h)
    '@vp_assert': dict(kind='assert'), '@vp_assume': dict(kind='assume'),
    '@vp_nondet_int': dict(c='vp_nondet_int', kind='pure'), '@vp_nondet_bool': dict(c='vp_nondet_bool', kind='pure'),
    '@vp_nondet_range': dict(c='vp_nondet_range', kind='pure'),
    '@vp_point': dict(c='vp_point', kind='vis'),
    '@vp_tid': dict(c='vp_tid', kind='pure'),
    '@vp_g': dict(c='vp_g', kind='pure'), '@vp_gset': dict(c='vp_gset', kind='pure'), '@vp_gadd': dict(c='vp_gadd', kind='pure'),
    '@vp_win_enter': dict(c='vp_win_enter', kind='pure'), '@vp_win_exit': dict(c='vp_win_exit', kind='pure'),
    '@vp_win_readers': dict(c='vp_win_readers', kind='pure'), '@vp_intent_shared': dict(c='vp_intent_shared', kind='pure'), '@vp_intent_excl': dict(c='vp_intent_excl', kind='pure'),
    '@vp_hist_begin': dict(c='vp_hist_begin', kind='pure'), '@vp_hist_end': dict(c='vp_hist_end', kind='pure'),
    '@vp_lin_check': dict(c='vp_lin_check', kind='pure'),
    '@vp_tab_add': dict(c='vp_tab_add', kind='pure'), '@vp_tab_del': dict(c='vp_tab_del', kind='pure'),
    '@vp_tab_count': dict(c='vp_tab_count', kind='pure'), '@vp_tab_has': dict(c='vp_tab_has', kind='pure'),
    '@vp_cover': dict(c='vp_cover', kind='pure'),
    '@vp_log': dict(c='vp_log', kind='pure'),
    '@vp_throw_now': dict(c='vp_throw_now', kind='pure'),
    '@vp_mutex_owner': dict(c='vp_mutex_owner_of', kind='pure'),
    '@vp_rw_state': dict(c='vp_rw_state_of', kind='pure'),
    '@vp_blockcount': dict(c='vp_blockcount', kind='pure'), '@vp_cvwaits': dict(c='vp_cvwaits', kind='pure'), '@vp_ublockcount': dict(c='vp_ublockcount', kind='pure'),
    '@vp_hb_data_write': dict(c='vp_hb_data_write', kind='pure'), '@vp_hb_data_read': dict(c='vp_hb_data_read', kind='pure'),
}


def block_order(X):
    """Reverse post-order of the CFG with loop bodies kept before loop exits, so that the only backward gotos in the
    generated C are real loop back edges (cbmc unwinds every backward goto; a layout-induced backward jump would
    multiply the cost of every invocation by the unwinding bound)."""
    succ = {b: [] for b in X.blocks}
    for b, il in X.blocks.items():
        for i in il:
            for t in successors(i):
                if t not in succ[b]: succ[b].append(t)
    # Tarjan SCC (iterative)
    index = {}; low = {}; onst = set(); st = []; comp = {}; cnt = [0]; ncomp = [0]
    def strong(v0):
        work = [(v0, 0)]
        while work:
            v, pi = work.pop()
            if pi == 0:
                index[v] = low[v] = cnt[0]; cnt[0] += 1; st.append(v); onst.add(v)
            recurse = False
            for k in range(pi, len(succ[v])):
                w = succ[v][k]
                if w not in index:
                    work.append((v, k + 1)); work.append((w, 0)); recurse = True; break
                elif w in onst: low[v] = min(low[v], index[w])
            if recurse: continue
            if low[v] == index[v]:
                while True:
                    w = st.pop(); onst.discard(w); comp[w] = ncomp[0]
                    if w == v: break
                ncomp[0] += 1
            if work:
                u = work[-1][0]
                low[u] = min(low[u], low[v])
    strong(X.entry)
    compsize = collections.Counter(comp.values())
    seen = set(); post = []
    stack = [(X.entry, None)]
    # iterative DFS; visit successors that leave the current SCC first (they end up later in RPO)
    def ordered(v):
        ss = succ[v]
        inside = [w for w in ss if comp.get(w) == comp.get(v) and compsize[comp[v]] > 1]
        outside = [w for w in ss if w not in inside]
        return outside + inside
    it = {}
    seen.add(X.entry); path = [X.entry]; it[X.entry] = iter(ordered(X.entry))
    while path:
        v = path[-1]
        nxt = None
        for w in it[v]:
            if w not in seen: nxt = w; break
        if nxt is None:
            post.append(v); path.pop()
        else:
            seen.add(nxt); it[nxt] = iter(ordered(nxt)); path.append(nxt)
    return list(reversed(post))


def san(name):
    return re.sub(r'\W', '_', name)


class CGen:
    def __init__(s, M, opts=None):
        s.M = M
        s.opts = opts or {}
        s.aggs = collections.OrderedDict()        # repr -> (name, StructT)
        s.hs = collections.OrderedDict()          # key -> (name, fields-text, size)
        s.names = {}                              # sanitised-name registry
        s.used_globs = collections.OrderedDict()
        s.used_funcs = collections.OrderedDict()  # plain functions needed
        s.address_taken = set()
        s.ext_used = set()
        s.typeinfos = collections.OrderedDict()
        s.vis_info = {}
        s.hb = bool(s.opts.get('hb'))
        s.yield_blocks = s.opts.get('yield_blocks', True)
        s.stats = {}

    # ---------------- names
    def uniq(s, kind, name):
        key = (kind, name)
        if key not in s.names:
            base = kind + san(name[1:] if name[:1] in '%@' else name)
            cand = base; n = 0
            used = set(s.names.values())
            while cand in used:
                n += 1; cand = f"{base}__{n}"
            s.names[key] = cand
        return s.names[key]

    def gname(s, g): return s.uniq('g_', g)
    def fname(s, f): return s.uniq('f_', f)

    # ---------------- types
    def ctype(s, t):
        t = s.M.resolve(t)
        if isinstance(t, IntT):
            if t.n <= 8: return 'uint8_t'
            if t.n <= 16: return 'uint16_t'
            if t.n <= 32: return 'uint32_t'
            if t.n <= 64: return 'uint64_t'
            raise Unsupported("integer width " + repr(t))
        if isinstance(t, PtrT): return 'char*'
        if isinstance(t, StructT): return s.agg_name(t)
        if isinstance(t, OtherT) and t.n == 'double': return 'double'
        if isinstance(t, OtherT) and t.n == 'float': return 'float'
        raise Unsupported("ctype " + repr(t))

    def sctype(s, t):
        return {'uint8_t': 'int8_t', 'uint16_t': 'int16_t', 'uint32_t': 'int32_t', 'uint64_t': 'int64_t'}[s.ctype(t)]

    def agg_name(s, t):
        key = repr(t)
        if key not in s.aggs: s.aggs[key] = (f"agg{len(s.aggs)}", t)
        return s.aggs[key][0]

    def mask(s, t, e):
        t = s.M.resolve(t)
        if isinstance(t, IntT) and t.n not in (8, 16, 32, 64):
            return f"(({e}) & {hex((1 << t.n) - 1)}u)"
        return e

    def leaves(s, t, off, out):
        """flatten to (offset, ctype, count)"""
        M = s.M
        t = M.resolve(t)
        if isinstance(t, StructT):
            for k, f in enumerate(t.fields): s.leaves(f, off + M.field_off(t, k), out)
        elif isinstance(t, ArrT):
            el = M.resolve(t.el)
            if isinstance(el, (IntT, PtrT)) or (isinstance(el, OtherT) and el.n in ('double', 'float')):
                if t.n > 0: out.append((off, s.ctype(el), t.n, M.sizeof(el)))
            else:
                for k in range(t.n): s.leaves(t.el, off + k * M.sizeof(t.el), out)
        elif isinstance(t, OtherT) and t.n == 'opaque':
            raise Unsupported("layout of opaque type")
        else:
            out.append((off, s.ctype(t), 1, M.sizeof(t)))

    def heap_struct(s, t):
        """C struct mirroring the byte layout of IR type t; returns its tag."""
        key = repr(t) if not isinstance(t, NamedT) else t.name
        if key not in s.hs:
            lv = []; s.leaves(t, 0, lv)
            fields = []; cur = 0
            for (off, ct, cnt, sz) in lv:
                if off < cur: raise Unsupported("overlapping layout " + key)
                if off > cur: fields.append(f"char pad{cur}[{off - cur}];")
                fields.append(f"{ct} m{off}[{cnt}];" if cnt > 1 else f"{ct} m{off};")
                cur = off + sz * cnt
            tot = s.M.sizeof(t)
            if tot > cur: fields.append(f"char pad{cur}[{tot - cur}];")
            if tot == 0: fields.append("char pad0[1];")
            s.hs[key] = (f"hs{len(s.hs)}", ' '.join(fields), max(tot, 1), lv)
        return s.hs[key][0]

    def obj_decl(s, t, name):
        """C declaration of an object with IR type t (scalars stay scalars)."""
        rt = s.M.resolve(t)
        if isinstance(rt, (IntT, PtrT)): return f"{s.ctype(rt)} {name}"
        return f"struct {s.heap_struct(t)} {name}"

    # ---------------- constants / operands
    def const_int(s, ty, v):
        rt = s.M.resolve(ty)
        if isinstance(rt, PtrT):
            return '((char*)0)' if v == 0 else f"((char*)(uintptr_t){v}ull)"
        if isinstance(rt, OtherT): return str(v)
        n = rt.n
        if v < 0: v += 1 << n
        return f"(({s.ctype(ty)}){v}u{'ll' if n > 32 else ''})"

    def val(s, ty, v, env, want_ptr=False):
        k = v[0]
        if k == 'reg':
            if v[1] not in env: raise Unsupported("unknown register " + v[1])
            return env[v[1]]
        if k == 'glob': return s.globref(v[1])
        if k == 'int':
            if want_ptr: return '((char*)0)' if v[1] == 0 else f"((char*)(uintptr_t){v[1]}ull)"
            return s.const_int(ty, v[1])
        if k in ('null',): return '((char*)0)'
        if k in ('undef', 'zero'):
            rt = s.M.resolve(ty)
            if isinstance(rt, StructT): return f"(({s.ctype(ty)}){{0}})"
            if isinstance(rt, PtrT) or want_ptr: return '((char*)0)'
            return '0'
        if k == 'fp':
            t = v[1]
            if t.startswith('0x'):
                import struct
                return repr(struct.unpack('>d', bytes.fromhex(t[2:].rjust(16, '0')))[0])
            return t
        if k == 'cexpr': return s.cexpr(v, env)
        raise Unsupported("operand " + repr(v))

    def cexpr(s, v, env):
        op = v[1]
        if op == 'getelementptr':
            _, _, bt, pt, base, idx = v
            return s.gep(bt, s.val(pt, base, env), [(it, s.val(it, iv, env), iv) for (it, iv) in idx])
        if op in ('bitcast', 'addrspacecast'): return s.val(v[2], v[3], env)
        if op == 'ptrtoint': return f"(({s.ctype(v[4])})(uintptr_t)({s.val(v[2], v[3], env)}))"
        if op == 'inttoptr': return f"((char*)(uintptr_t)({s.val(v[2], v[3], env)}))"
        if op in ('add', 'sub'):
            a = s.val(v[2], v[3], env); b = s.val(v[2], v[4], env)
            return f"(({s.ctype(v[2])})(({a}) {'+' if op == 'add' else '-'} ({b})))"
        if op == 'icmp' and v[2] in ('eq', 'ne'):
            a = s.val(v[3], v[4], env); b = s.val(v[3], v[5], env)
            return f"(({a}) {'==' if v[2] == 'eq' else '!='} ({b}))"
        raise Unsupported("constant expression " + op)

    def globref(s, g):
        if g in s.M.funcs or g in s.M.decls:
            s.address_taken.add(g)
            if g in s.M.funcs: s.used_funcs[g] = True
            return f"((char*)&{s.cfn(g)})"
        if g not in s.M.globs: raise Unsupported("unknown global " + g)
        G = s.M.globs[g]
        if G.init is not None and G.init[0] == 'alias':
            return s.val(G.ty, G.init[1], {})
        s.used_globs[g] = True
        return f"((char*)&{s.gname(g)})"

    def cfn(s, g):
        if g in MODELS and 'c' in MODELS[g]: return MODELS[g]['c']
        if g in s.M.funcs: return s.fname(g)
        s.ext_used.add(g)
        return s.fname(g)

    def gep(s, bt, base, idx):
        M = s.M
        off_c = 0; dyn = []
        t = bt; first = True
        for (it, iv, raw) in idx:
            const = raw[1] if raw[0] == 'int' else (0 if raw[0] in ('zero', 'null') else None)
            if first:
                sz = M.sizeof(t); first = False
                if const is not None: off_c += const * sz
                else: dyn.append(f"((int64_t){s.sx(it, iv)})*{sz}")
                continue
            rt = M.resolve(t)
            if isinstance(rt, StructT):
                if const is None: raise Unsupported("dynamic struct index")
                off_c += M.field_off(rt, const); t = rt.fields[const]
            elif isinstance(rt, ArrT):
                sz = M.sizeof(rt.el)
                if const is not None: off_c += const * sz
                else: dyn.append(f"((int64_t){s.sx(it, iv)})*{sz}")
                t = rt.el
            else: raise Unsupported("gep into " + repr(rt))
        e = f"({base})"
        if off_c: e = f"({e} + {off_c})" if off_c > 0 else f"({e} - {-off_c})"
        for d in dyn: e = f"({e} + {d})"
        return e

    def sx(s, ty, v): return f"(({s.sctype(ty)})({v}))"

    # ---------------- typeinfo ids (exception model)
    def typeid(s, v):
        """small integer for a typeinfo operand of landingpad / llvm.eh.typeid.for"""
        if v[0] in ('null', 'zero') or (v[0] == 'int' and v[1] == 0): return 0
        gl = []; val_globs(v, gl)
        if len(gl) != 1: raise Unsupported("typeinfo operand " + repr(v))
        g = gl[0]
        if g not in s.typeinfos: s.typeinfos[g] = len(s.typeinfos) + 1
        return s.typeinfos[g]

    # =================================================================== function emission
    def emit(s, X, mode, tname=None, frozen=()):
        """mode 'plain' -> C function text;  mode 'thread' -> (decls, body) for thread instance name tname"""
        M = s.M
        E = FuncEmitter(s, X, mode, tname)
        return E.run()


class FuncEmitter:
    def __init__(s, G, X, mode, tname):
        s.G, s.X, s.mode, s.tname = G, X, mode, tname
        s.M = G.M
        s.thread = (mode == 'thread')
        s.pfx = (tname + '_') if s.thread else ''
        s.env = {}
        s.decls = []
        s.out = []          # list of (kind, text): 'L' label, 'S' invisible statement, 'T' terminator, 'V' raw (already guarded)
        s.nvis = 0
        s.vis = []
        s.pl = infer_ptrlike(s.M, X)

    def L(s, b): return 'L_' + san(b)

    def regname(s, r):
        return s.pfx + s.G.uniq('r_', r) if s.thread else s.G.uniq('r_', r)

    def decl_regs(s):
        X, G = s.X, s.G
        for r, ty in X.regty.items():
            if ty is None: continue
            rt = s.M.resolve(ty)
            if isinstance(rt, VoidT): continue
            if r in s.pl: ct = 'char*'
            elif (r + '#0') in s.pl: ct = G.ctype(StructT([I8P, I1]))
            else: ct = G.ctype(ty)
            nm = s.regname(r)
            s.env[r] = nm
            s.decls.append((ct, nm))

    def run(s):
        X, G, M = s.X, s.G, s.M
        s.decl_regs()
        alloca_decl = []
        for (r, ty) in X.allocas:
            nm = s.pfx + G.uniq('a_', r)
            alloca_decl.append((ty, nm))
        s.alloca_names = {r: (s.pfx + G.uniq('a_', r)) for (r, _) in X.allocas}
        # phi table
        s.phis = collections.defaultdict(list)
        for b, il in X.blocks.items():
            for i in il:
                if i.op == 'phi': s.phis[b].append(i)
        order = block_order(X)
        for b in order:
            s.out.append(('L', s.L(b)))
            for idx, i in enumerate(X.blocks[b]):
                s.ins(b, i)
            last = X.blocks[b][-1] if X.blocks[b] else None
            if last is None or last.op not in ('br', 'switch', 'ret', 'unreachable', 'excret', 'excbr'):
                # block fell off (dead continuation): make it explicit
                s.T("__CPROVER_assume(0);")
        return s.render(alloca_decl)

    # ---- output helpers
    def S(s, text): s.out.append(('S', text))
    def T(s, text): s.out.append(('T', text))
    def V(s, text): s.out.append(('V', text))

    def goto(s, frm_pred, to):
        G = s.G
        ph = s.phis.get(to)
        if not ph: return f"goto {s.L(to)};"
        code = ["{"]
        tmp = []
        for k, i in enumerate(ph):
            inc = [v for (v, p) in i.a[0] if p == frm_pred]
            if not inc:
                raise Unsupported(f"phi in {to} has no incoming for {frm_pred}: {i.raw.strip()}")
            pt = i.dst in s.pl
            v = G.val(i.ty, inc[0], s.env, want_ptr=pt)
            ct = 'char*' if pt else G.ctype(i.ty)
            code.append(f" {ct} t{k} = {v};")
        for k, i in enumerate(ph):
            code.append(f" {s.env[i.dst]} = t{k};")
        code.append(f" goto {s.L(to)}; }}")
        return ''.join(code)

    def visible(s, kind, desc, cond=None, bk=None, a='0', b='0', pre=None):
        """Emit the context-switch prologue of visible op k. Returns k."""
        if not s.thread:
            if cond is not None:
                s.S(f"if (!({cond})) vp_plain_block({bk or 'VP_B_NONE'}, {a});")
            return None
        k = s.nvis; s.nvis += 1
        s.vis.append((k, kind, desc))
        P = s.pfx
        s.V(f"if (!{P}run && {P}pc == {k}) {P}run = 1;")
        if pre: s.V(f"if ({P}run) {{ {pre} }}")
        if cond is not None:
            s.V(f"if ({P}run && {P}budget != 0 && !({cond})) {{ {P}pc = {k}; {P}run = 0; vp_blocked(vp_cur, {bk}, {a}, {b}); }}")
        s.V(f"if ({P}run && {P}budget == 0) {{ {P}pc = {k}; {P}run = 0; }}")
        s.S(f"{P}budget--; VP_STEP({k});")
        return k

    def ptr(s, v):
        return s.G.val(I8P, v, s.env, want_ptr=True)

    def ev(s, kind):
        """memory / synchronisation event counter (native builds only): lets a schedule be expressed in units that an
        instrumented native build of the real code can count too (engine/irinstr.py, engine/vp_rt.cpp)"""
        s.S(f"VP_EV({kind});")

    # ---- instruction selection
    def ins(s, b, i):
        G, M, env = s.G, s.M, s.env
        o, a = i.op, i.a
        D = env.get(i.dst) if i.dst else None
        if o == 'phi': return
        if o == 'bin':
            op, x, y = a
            ty = i.ty
            if op == 'sub' and all(v[0] == 'reg' and v[1] in s.pl for v in (x, y)):
                # integer difference of the addresses (cbmc's pointer check flags 'p - q' when both are null, as for an empty vector)
                s.S(f"{D} = (uint64_t)((uintptr_t)({env[x[1]]}) - (uintptr_t)({env[y[1]]}));"); return
            A = G.val(ty, x, env); B = G.val(ty, y, env)
            ct = G.ctype(ty)
            if op in ('add', 'sub', 'mul', 'and', 'or', 'xor', 'udiv', 'urem'):
                cop = {'add': '+', 'sub': '-', 'mul': '*', 'and': '&', 'or': '|', 'xor': '^', 'udiv': '/', 'urem': '%'}[op]
                s.S(f"{D} = {G.mask(ty, f'({ct})(({A}) {cop} ({B}))')};")
            elif op in ('shl', 'lshr'):
                n = M.resolve(ty).n
                cop = '<<' if op == 'shl' else '>>'
                s.S(f"{D} = {G.mask(ty, f'({ct})((({B}) < {n}) ? (({A}) {cop} ({B})) : 0)')};")
            elif op == 'ashr':
                s.S(f"{D} = ({ct})({G.sx(ty, A)} >> ({B}));")
            elif op == 'sdiv' and y == ('int', 1000000000) and M.resolve(ty).n == 64:
                # libstdc++ chrono -> timespec conversion; see vpmodels.h VP_DIV1E9 and DESIGN.md section 4
                s.S(f"{D} = ({ct})VP_DIV1E9((int64_t)({A}));")
            elif op in ('sdiv', 'srem'):
                cop = '/' if op == 'sdiv' else '%'
                s.S(f"{D} = ({ct})({G.sx(ty, A)} {cop} {G.sx(ty, B)});")
            else: raise Unsupported(op)
        elif o == 'icmp':
            pred, ty, x, y = a
            isptr = isinstance(M.resolve(ty), PtrT) or any(v[0] == 'reg' and v[1] in s.pl for v in (x, y))
            A = G.val(ty, x, env, want_ptr=isptr); B = G.val(ty, y, env, want_ptr=isptr)
            if pred in ('eq', 'ne'):
                s.S(f"{D} = (({A}) {'==' if pred == 'eq' else '!='} ({B}));")
            elif pred in ('ugt', 'uge', 'ult', 'ule'):
                cop = {'ugt': '>', 'uge': '>=', 'ult': '<', 'ule': '<='}[pred]
                if isptr: s.S(f"{D} = ((uintptr_t)({A}) {cop} (uintptr_t)({B}));")
                else: s.S(f"{D} = (({A}) {cop} ({B}));")
            else:
                cop = {'sgt': '>', 'sge': '>=', 'slt': '<', 'sle': '<='}[pred]
                if isptr: s.S(f"{D} = ((intptr_t)({A}) {cop} (intptr_t)({B}));")
                else: s.S(f"{D} = ({G.sx(ty, A)} {cop} {G.sx(ty, B)});")
        elif o == 'cast':
            op, ft, v = a
            tt = i.ty
            if op == 'ptrtoint' and i.dst in s.pl: s.S(f"{D} = {s.ptr(v)};"); return
            if op == 'inttoptr' and v[0] == 'reg' and v[1] in s.pl: s.S(f"{D} = {env[v[1]]};"); return
            V = G.val(ft, v, env)
            if op == 'zext': s.S(f"{D} = ({G.ctype(tt)})({V});")
            elif op == 'sext':
                if M.resolve(ft).n == 1: s.S(f"{D} = ({V}) ? ({G.ctype(tt)})-1 : 0;")
                else: s.S(f"{D} = {G.mask(tt, f'({G.ctype(tt)})({G.sctype(tt)})({G.sx(ft, V)})')};")
            elif op == 'trunc': s.S(f"{D} = {G.mask(tt, f'({G.ctype(tt)})({V})')};")
            elif op in ('bitcast', 'addrspacecast'):
                if isinstance(M.resolve(tt), PtrT) != isinstance(M.resolve(ft), PtrT): raise Unsupported("bitcast int<->ptr")
                s.S(f"{D} = {V};")
            elif op == 'ptrtoint': s.S(f"{D} = ({G.ctype(tt)})(uintptr_t)({V});")
            elif op == 'inttoptr': s.S(f"{D} = (char*)(uintptr_t)({V});")
            else: raise Unsupported(op)
        elif o in ('freeze', 'copy'):
            pt = i.dst in s.pl
            s.S(f"{D} = {G.val(i.ty, a[0], env, want_ptr=pt)};")
        elif o == 'select':
            pt = i.dst in s.pl
            c = G.val(I1, a[0], env)
            s.S(f"{D} = ({c}) ? ({G.val(i.ty, a[1], env, want_ptr=pt)}) : ({G.val(i.ty, a[2], env, want_ptr=pt)});")
        elif o == 'gep':
            bt, base, idx = a
            s.S(f"{D} = {G.gep(bt, s.ptr(base), [(it, G.val(it, iv, env), iv) for (it, iv) in idx])};")
        elif o == 'alloca':
            if a[1] is not None and not (a[1][0] == 'int' and a[1][1] == 1): raise Unsupported("array alloca")
            s.S(f"{D} = (char*)&{s.alloca_names[i.dst]};")
        elif o == 'load':
            ptr, order = a
            P = s.ptr(ptr)
            rt = M.resolve(i.ty)
            if isinstance(rt, (StructT, ArrT)): raise Unsupported("aggregate load")
            ct = 'char*' if (i.dst in s.pl or isinstance(rt, PtrT)) else G.ctype(i.ty)
            if not i.attrs.get('priv'):
                s.visible('load', f"{order or 'na'} {i.raw.strip()[:70]}")
            s.ev(0)
            if not i.attrs.get('priv'):
                if G.hb and order is None: s.S(f"VP_HB_LOAD({P}, {M.sizeof(i.ty)}, VP_O_NA);")
                if G.hb and order is not None:
                    prev = f"vp_hb_prev_p({P})" if ct == 'char*' else f"({ct})vp_hb_prev_i({P})"
                    s.S(f"if (vp_hb_aload({P}, VP_O_{order.upper()})) {D} = {prev}; else {D} = *({ct}*)({P});")
                    return
            s.S(f"{D} = *({ct}*)({P});")
        elif o == 'store':
            v, ptr, order = a
            P = s.ptr(ptr)
            rt = M.resolve(i.ty)
            if isinstance(rt, (StructT, ArrT)): raise Unsupported("aggregate store")
            isp = isinstance(rt, PtrT) or (v[0] == 'reg' and v[1] in s.pl)
            ct = 'char*' if isp else G.ctype(i.ty)
            V = G.val(i.ty, v, env, want_ptr=isp)
            if not i.attrs.get('priv'):
                s.visible('store', f"{order or 'na'} {i.raw.strip()[:70]}")
            s.ev(1)
            if not i.attrs.get('priv'):
                if G.hb and order is None: s.S(f"VP_HB_STORE({P}, {M.sizeof(i.ty)}, VP_O_NA);")
                if G.hb and order is not None:
                    if ct == 'char*': s.S(f"vp_hb_astore_p({P}, *(char**)({P}), VP_O_{order.upper()});")
                    else: s.S(f"vp_hb_astore_i({P}, (uint64_t)*({ct}*)({P}), VP_O_{order.upper()});")
                s.S(f"*({ct}*)({P}) = {V}; vp_epoch++;")
            else:
                s.S(f"*({ct}*)({P}) = {V};")
        elif o == 'rmw':
            rop, ptr, v, order = a
            P = s.ptr(ptr)
            isp = i.dst in s.pl
            ct = 'char*' if isp else G.ctype(i.ty)
            V = G.val(i.ty, v, env, want_ptr=isp)
            if not i.attrs.get('priv'):
                s.visible('rmw', f"{rop} {order}")
            s.ev(1)
            if not i.attrs.get('priv'):
                if G.hb: s.S(f"VP_HB_RMW({P}, {M.sizeof(i.ty)}, VP_O_{order.upper()});")
            old = D if D else f"*({ct}*)({P})"
            pre = f"{D} = *({ct}*)({P}); " if D else ""
            if D is None:
                tmp = f"({ct})(*({ct}*)({P})"
            e = {'add': f"{old} + ({V})", 'sub': f"{old} - ({V})", 'xchg': V, 'and': f"{old} & ({V})", 'or': f"{old} | ({V})",
                 'xor': f"{old} ^ ({V})"}.get(rop)
            if e is None: raise Unsupported("atomicrmw " + rop)
            s.S(f"{pre}*({ct}*)({P}) = ({ct})({e}); vp_epoch++;")
        elif o == 'cas':
            ptr, ty, e_, n_, o1, o2, weak = a
            P = s.ptr(ptr)
            cpl = (i.dst + '#0') in s.pl or isinstance(M.resolve(ty), PtrT)
            ct = 'char*' if cpl else G.ctype(ty)
            Ev = G.val(ty, e_, env, want_ptr=cpl); Nv = G.val(ty, n_, env, want_ptr=cpl)
            if not i.attrs.get('priv'):
                s.visible('cas', f"{o1} {o2}")
            s.ev(1)
            if not i.attrs.get('priv'):
                if G.hb: s.S(f"VP_HB_CAS({P}, {M.sizeof(ty)}, VP_O_{o1.upper()}, VP_O_{o2.upper()}, (*({ct}*)({P}) == ({Ev})));")
            s.S(f"{D}.f0 = *({ct}*)({P}); {D}.f1 = ({D}.f0 == ({Ev})); if ({D}.f1) {{ *({ct}*)({P}) = {Nv}; vp_epoch++; }}")
        elif o == 'fence':
            s.visible('fence', a[0])
            s.ev(2)
            if G.hb: s.S(f"VP_HB_FENCE(VP_O_{a[0].upper()});")
        elif o == 'extractvalue':
            ty, v, idxs = a
            e = G.val(ty, v, env)
            for k in idxs: e += f".f{k}"
            s.S(f"{D} = {e};")
        elif o == 'insertvalue':
            v, et, ev, idxs = a
            s.S(f"{D} = {G.val(i.ty, v, env)};")
            e = D
            for k in idxs: e += f".f{k}"
            s.S(f"{e} = {G.val(et, ev, env)};")
        elif o == 'br':
            ap = i.attrs.get('as_pred', b)
            if a[0] is None: s.T(s.goto(ap, a[1]))
            else:
                c = G.val(I1, a[0], env)
                s.T(f"if ({c}) {{ {s.goto(ap, a[1])} }} else {{ {s.goto(ap, a[2])} }}")
        elif o == 'switch':
            ty, v, dflt, cases = a
            ap = i.attrs.get('as_pred', b)
            V = G.val(ty, v, env)
            txt = []
            for (cv, l) in cases:
                txt.append(f"if (({V}) == ({G.val(ty, cv, env)})) {{ {s.goto(ap, l)} }}")
            txt.append(s.goto(ap, dflt))
            s.T(' '.join(txt))
        elif o == 'excbr':
            uw, cont = a
            if uw is None:
                s.T(f"if (vp_exc.pending) {{ {s.exc_return()} }} goto {s.L(cont)};")
            else:
                ap = i.attrs.get('uw_as_pred') or i.attrs.get('as_pred', b)
                s.T(f"if (vp_exc.pending) {{ {s.goto(ap, uw)} }} goto {s.L(cont)};")
        elif o == 'excret':
            s.T(s.exc_return())
        elif o == 'ret':
            if s.thread:
                s.T(f"{s.pfx}done = 1; {s.pfx}pc = -1; {s.pfx}run = 0; goto L__end;")
            else:
                if a[0] is None: s.T("return;")
                else:
                    s.T(f"return {G.val(i.ty, a[0], env)};")
        elif o == 'unreachable':
            # clang turns undefined behaviour it can prove (store through a null pointer, ...) into 'unreachable' and prunes the
            # path; reaching one is therefore reported, not assumed away (noreturn models assume(0) before control gets here)
            s.T('VP_CHECK(0, "IR unreachable reached: undefined behaviour in the source (e.g. access through a null pointer that the optimiser removed)"); __CPROVER_assume(0);')
        elif o == 'reraise':
            s.S("vp_exc.pending = 1;")
        elif o == 'landingpad':
            cleanup, clauses = a
            # selector: id of the first matching clause
            sel = "0"
            expr = "0"
            for (k, ct, cv) in reversed(clauses):
                if k == 'filter': continue
                tid = G.typeid(cv)
                if tid == 0: expr = "0x7fff"          # catch (...)
                else: expr = f"(vp_type_matches(vp_exc.tinfo, {G.globref_ti(cv)}) ? {tid} : ({expr}))"
            s.S(f"{D}.f0 = vp_exc.obj; {D}.f1 = (uint32_t)({expr}); vp_exc.pending = 0;")
        elif o == 'call':
            s.call(b, i)
        else:
            raise Unsupported("emit " + o)

    def exc_return(s):
        if s.thread:
            return "vp_uncaught(); __CPROVER_assume(0);"
        rt = s.M.resolve(s.X.ret)
        if isinstance(rt, VoidT): return "return;"
        if isinstance(rt, StructT): return f"return ({s.G.ctype(rt)}){{0}};"
        return "return 0;"

    def call(s, b, i):
        G, M, env = s.G, s.M, s.env
        callee, args, _, _, fnty = i.a
        D = env.get(i.dst) if i.dst else None
        rvoid = isinstance(M.resolve(i.ty), VoidT)
        def A(k, want_ptr=False):
            return G.val(args[k][0], args[k][1], env, want_ptr=want_ptr or isinstance(M.resolve(args[k][0]), PtrT))
        asg = (f"{D} = " if (D and not rvoid) else "")
        if callee[0] == 'reg':
            # indirect call: executes atomically (DESIGN section 3 E1); resolved by the translator to an explicit dispatch
            # over the functions that can sit in that vtable slot (or, for plain function pointers, that have the same IR type)
            ats = ', '.join(G.ctype(t) for (t, _, _) in args)
            rt = 'void' if rvoid else G.ctype(i.ty)
            av = ', '.join(A(k) for k in range(len(args)))
            s.visible('icall', i.raw.strip()[:70])
            cands = s.icall_candidates(callee[1], i)
            fp = env[callee[1]]
            if cands is None:
                s.S(f"{asg}(({rt}(*)({ats}))({fp}))({av});")
            else:
                txt = []
                for c in cands:
                    G.used_funcs[c] = True
                    txt.append(f"if ({fp} == (char*)&{G.fname(c)}) {{ {asg}{G.fname(c)}({av}); }}")
                txt.append('{ VP_CHECK(0, "indirect call: target outside the resolved candidate set"); __CPROVER_assume(0); }')
                s.S(' else '.join(txt))
            return
        cn = callee[1]
        if cn.startswith('@llvm.'):
            return s.intrinsic(cn, i, args, D, A)
        m = MODELS.get(cn)
        if m is None:
            if cn in M.funcs:
                G.used_funcs[cn] = True
                av = ', '.join(A(k) for k in range(len(args)))
                s.visible('call', cn)
                s.S(f"{asg}{G.fname(cn)}({av});")
                return
            raise Unsupported("no model for external " + cn)
        kind = m['kind']
        if kind == 'assert':
            idv = args[1][1][1] if len(args) > 1 and args[1][1][0] == 'int' else -1
            s.S(f"VP_ASSERT({A(0)}, {idv});")
            return
        if kind == 'assume':
            s.S(f"__CPROVER_assume({A(0)});"); return
        if kind == 'new':
            sz = args[0][1]
            tyn = None
            # typed allocation: look for the bitcast of the result to a named struct of the same size
            for il in s.X.blocks.values():
                for j in il:
                    if j.op == 'cast' and j.a[0] == 'bitcast' and j.a[2] == ('reg', i.dst):
                        tt = M.resolve(j.ty)
                        if isinstance(tt, PtrT) and isinstance(tt.to, NamedT) and tyn is None:
                            try:
                                if sz[0] == 'int' and M.sizeof(tt.to) == sz[1]: tyn = tt.to
                            except Unsupported: pass
            if tyn is not None:
                s.S(f"{D} = (char*)malloc(sizeof(struct {G.heap_struct(tyn)})); __CPROVER_assume({D} != 0); VP_NEW({D});")
            elif sz[0] == 'int':
                s.S(f"{D} = (char*)malloc({A(0)}); __CPROVER_assume({D} != 0); VP_NEW({D});")
            else:
                # allocation of a symbolic size (vector growth): a fixed-size block, the request is assumed to fit
                # (heap objects of symbolic size make every later access a byte-level formula; stated in DESIGN.md section 4)
                s.S(f"__CPROVER_assume(({A(0)}) <= VP_DYN_ALLOC_MAX); {D} = (char*)malloc(VP_DYN_ALLOC_MAX); __CPROVER_assume({D} != 0); VP_NEW({D});")
            return
        if kind == 'yield':
            if s.thread and G.yield_blocks:
                s.S("vp_yepoch[vp_cur] = vp_epoch;")
                s.visible('yield', '', cond="vp_yepoch[vp_cur] != vp_epoch", bk='VP_B_YIELD')
            else:
                s.visible('yield', '')
            s.ev(3)
            if D: s.S(f"{D} = 0;")
            return
        if kind in ('cvwait', 'cvclockwait', 'cvtimedwait'):
            cv = A(0)
            if kind == 'cvwait': mx = f"(*(char**)({A(1)}))"
            else: mx = A(1)
            timed = 0 if kind == 'cvwait' else 1
            s.visible('cv_wait_begin', '')
            s.ev(4)
            s.S(f"vp_cv_wait_begin({cv}, {mx}); vp_epoch++;")
            s.visible('cv_wait_wake', '', cond=f"vp_cv_can_wake({cv}, {mx}, {timed})", bk='VP_B_CV', a=cv, b=mx)
            s.ev(4)
            if kind == 'cvwait': s.S(f"vp_cv_wait_end({cv}, {mx}, 0, (char*)0);")
            else:
                tsarg = A(3) if kind == 'cvclockwait' else A(2)
                s.S(f"{asg}vp_cv_wait_end({cv}, {mx}, 1, {tsarg});")
            return
        cname = m['c']
        nfix = m.get('vararg')
        av = ', '.join(A(k) for k in range(len(args) if nfix is None else nfix))
        if kind == 'pure' or kind == 'mem':
            if kind == 'mem': s.visible('mem', cn); s.ev(4)
            s.S(f"{asg}{cname}({av});")
        elif kind == 'vis':
            s.visible('sync', cn)
            s.ev(4)
            s.S(f"{asg}{cname}({av});" + (" vp_epoch++;" if m.get('wr') else ""))
        elif kind == 'block':
            s.visible('sync', cn, cond=f"{m['en']}({A(0)})", bk=m['bk'], a=A(0))
            s.ev(4)
            s.S(f"{asg}{cname}({av});")
        elif kind == 'tblock':
            # timed acquisition: enabled when the lock is available, or by the always-enabled time-out transition
            s.visible('sync', cn, cond=f"({m['en']}({A(0)}) || vp_timeout_fires())", bk='VP_B_TIMED', a=A(0))
            s.ev(4)
            s.S(f"{asg}{cname}({av});")
        else:
            raise Unsupported("model kind " + kind)

    def intrinsic(s, cn, i, args, D, A):
        G, M = s.G, s.M
        if cn.startswith(DROP_INTRINSICS): return
        if cn.startswith('@llvm.memset'):
            if not i.attrs.get('priv'):
                s.visible('memset', '')
                if G.hb: s.S(f"VP_HB_STORE({A(0)}, {A(2)}, VP_O_NA);")
            s.ev(1)
            if args[2][1][0] == 'int':
                s.S(f"memset({A(0)}, {A(1)}, {A(2)});" + ("" if i.attrs.get('priv') else " vp_epoch++;"))
            else:
                s.S(f"vp_memset_b({A(0)}, {A(1)}, {A(2)});" + ("" if i.attrs.get('priv') else " vp_epoch++;"))
        elif cn.startswith('@llvm.memcpy') or cn.startswith('@llvm.memmove'):
            if not i.attrs.get('priv'):
                s.visible('memcpy', '')
                if G.hb: s.S(f"VP_HB_LOAD({A(1)}, {A(2)}, VP_O_NA); VP_HB_STORE({A(0)}, {A(2)}, VP_O_NA);")
            s.ev(1)
            if args[2][1][0] == 'int':
                s.S(f"memmove({A(0)}, {A(1)}, {A(2)});" + ("" if i.attrs.get('priv') else " vp_epoch++;"))
            else:
                # cbmc's built-in memmove is imprecise for a symbolic length: element-wise copy loop with the element
                # kind taken from the IR type the arguments were cast from
                ek = s.elem_kind(args[0][1], args[1][1])
                s.S(f"vp_memmove_{ek}({A(0)}, {A(1)}, {A(2)});" + ("" if i.attrs.get('priv') else " vp_epoch++;"))
        elif cn.startswith('@llvm.eh.typeid.for'):
            s.S(f"{D} = {G.typeid(args[0][1])};")
        elif cn.startswith('@llvm.trap'):
            s.S("vp_terminate();")
        elif cn.startswith(('@llvm.umax', '@llvm.umin')):
            cop = '>' if 'umax' in cn else '<'
            s.S(f"{D} = (({A(0)}) {cop} ({A(1)})) ? ({A(0)}) : ({A(1)});")
        elif cn.startswith(('@llvm.smax', '@llvm.smin')):
            cop = '>' if 'smax' in cn else '<'
            t = args[0][0]
            s.S(f"{D} = ({G.sx(t, A(0))} {cop} {G.sx(t, A(1))}) ? ({A(0)}) : ({A(1)});")
        elif cn.startswith('@llvm.expect'):
            s.S(f"{D} = {A(0)};")
        elif cn.startswith('@llvm.is.constant'):
            s.S(f"{D} = 0;")
        elif cn.startswith('@llvm.objectsize'):
            s.S(f"{D} = ({G.ctype(i.ty)})-1;")
        elif cn.startswith('@llvm.umul.with.overflow'):
            t = args[0][0]; n = M.resolve(t).n
            if n != 64: raise Unsupported(cn)
            s.S(f"{D}.f0 = ({A(0)}) * ({A(1)}); {D}.f1 = (({A(1)}) != 0 && {D}.f0 / ({A(1)}) != ({A(0)}));")
        elif cn.startswith('@llvm.uadd.with.overflow'):
            s.S(f"{D}.f0 = ({A(0)}) + ({A(1)}); {D}.f1 = ({D}.f0 < ({A(0)}));")
        elif cn.startswith('@llvm.usub.sat'):
            s.S(f"{D} = (({A(0)}) > ({A(1)})) ? ({A(0)}) - ({A(1)}) : 0;")
        elif cn.startswith('@llvm.abs'):
            t = args[0][0]
            s.S(f"{D} = ({G.sx(t, A(0))} < 0) ? ({G.ctype(t)})(-{G.sx(t, A(0))}) : ({A(0)});")
        elif cn.startswith('@llvm.ctlz') or cn.startswith('@llvm.cttz') or cn.startswith('@llvm.ctpop'):
            n = M.resolve(args[0][0]).n
            fn = 'vp_ctlz' if 'ctlz' in cn else ('vp_cttz' if 'cttz' in cn else 'vp_ctpop')
            s.S(f"{D} = {fn}({A(0)}, {n});")
        else:
            raise Unsupported("intrinsic " + cn)

    def vtables(s):
        """[(vtable global, own typeinfo global, ancestor typeinfos, functions in the table)]"""
        M = s.M
        if hasattr(s.G, '_vts'): return s.G._vts
        base = {}
        for g, Gl in M.globs.items():
            if g.startswith('@_ZTI') and Gl.init is not None and Gl.init[0] == 'agg':
                bs = []
                for (t_, v_) in Gl.init[2][2:]:
                    gl = []; val_globs(v_, gl)
                    bs += [x for x in gl if x.startswith('@_ZTI')]
                base[g] = bs
        def ancestors(ti, seen=()):
            out = []
            for b in base.get(ti, []):
                if b not in seen: out += [b] + ancestors(b, seen + (b,))
            return out
        res = []
        for g, Gl in M.globs.items():
            if not g.startswith('@_ZTV') or Gl.init is None or Gl.init[0] != 'agg': continue
            ti = None; ents = []
            for (aty, arr) in Gl.init[2]:
                if arr[0] != 'agg': continue
                for k, (et, ev) in enumerate(arr[2]):
                    gl = []; val_globs(ev, gl)
                    for x in gl:
                        if x.startswith('@_ZTI') and ti is None: ti = x
                        elif x in M.funcs: ents.append(x)
            res.append((g, ti, ancestors(ti) if ti else [], ents))
        s.G._vts = res
        return res

    def typeinfo_names(s):
        if hasattr(s.G, '_tinames'): return s.G._tinames
        import subprocess
        tis = [g for g in s.M.globs if g.startswith('@_ZTI')]
        out = {}
        if tis:
            r = subprocess.run(['c++filt'], input='\n'.join(t[1:] for t in tis), stdout=subprocess.PIPE, text=True)
            for t, d in zip(tis, r.stdout.split('\n')):
                out[t] = re.sub(r'\s+', '', d.replace('typeinfo for ', ''))
        s.G._tinames = out
        return out

    def fn_of_class(s, fn, ti):
        c = ti[len('@_ZTI'):]
        inner = c[1:-1] if (c.startswith('N') and c.endswith('E')) else c
        return fn.startswith('@_ZN' + inner) or fn.startswith('@_ZNK' + inner)

    def icall_candidates(s, reg, call):
        M, G = s.M, s.G
        defs = {}
        for il in s.X.blocks.values():
            for j in il:
                if j.dst: defs.setdefault(j.dst, j)
        d = defs.get(reg)
        nargs = len(call.a[1])
        def sig_ok(fn):
            f = M.funcs.get(fn)
            return f is not None and len(f.params) == nargs and isinstance(M.resolve(f.ret), VoidT) == isinstance(M.resolve(call.ty), VoidT)
        if d is not None and d.op == 'load' and d.a[0][0] == 'reg':
            pd = defs.get(d.a[0][1])
            slot = None
            while pd is not None and pd.op == 'cast' and pd.a[0] == 'bitcast' and pd.a[2][0] == 'reg': pd = defs.get(pd.a[2][1])
            if pd is not None and pd.op == 'gep' and len(pd.a[2]) == 1 and pd.a[2][0][1][0] == 'int' and isinstance(M.resolve(pd.a[0]), PtrT):
                slot = pd.a[2][0][1][1]; base = pd.a[1]
            elif pd is not None and pd.op == 'load':
                slot = 0
            if slot is not None:
                out = []
                vts = s.vtables()
                # static type of the object the call is made on restricts the candidate vtables to that class hierarchy
                allowed = None
                if call.a[1]:
                    tt = repr(call.a[1][0][0])
                    owners = set()
                    for (g, ti, anc, ents) in vts:
                        for fn in ents:
                            f = M.funcs.get(fn)
                            if f is not None and f.params and repr(f.params[0][0]) == tt:
                                for (g2, ti2, anc2, ents2) in vts:
                                    if ti2 and s.fn_of_class(fn, ti2): owners.add(ti2)
                    if not owners:
                        # abstract bases often have no emitted vtable: match the IR struct name against demangled typeinfo names
                        want = re.sub(r'\s+', '', re.sub(r'^%"?(class|struct)\.', '', tt.rstrip('*')).rstrip('"'))
                        want = re.sub(r'\.\d+$', '', want)
                        for ti, nm in s.typeinfo_names().items():
                            if nm == want: owners.add(ti)
                    if owners:
                        allowed = [v for v in vts if v[1] in owners or (set(v[2]) & owners)]
                for (g, ti, anc, ents) in (allowed if allowed else vts):
                    k = 2 + slot
                    Gl = M.globs[g]
                    for (aty, arr) in Gl.init[2]:
                        if arr[0] != 'agg': continue
                        if 0 <= k < len(arr[2]):
                            gl = []; val_globs(arr[2][k][1], gl)
                            for fn in gl:
                                if fn in M.funcs and sig_ok(fn) and fn not in out: out.append(fn)
                if out: return out
        # plain function pointer (std::function invoker/manager, callbacks): same IR function type, address taken
        fnty = None
        rt = s.X.regty.get(reg)
        rr = M.resolve(rt) if rt is not None else None
        if isinstance(rr, PtrT) and isinstance(rr.to, FnT): fnty = rr.to
        if fnty is not None:
            out = []
            for fn, f in M.funcs.items():
                if not sig_ok(fn): continue
                if repr(f.ret) == repr(fnty.ret) and [repr(t) for (t, _, _) in f.params] == [repr(t) for t in fnty.params]:
                    out.append(fn)
            if out: return out
        return None

    def elem_kind(s, *vals):
        """element kind for a symbolic-length copy: 'p' pointers, 'w' 32-bit, 'q' 64-bit, 'b' bytes"""
        M = s.M
        defs = {}
        for il in s.X.blocks.values():
            for j in il:
                if j.dst: defs.setdefault(j.dst, j)
        def scalar(t):
            t = M.resolve(t)
            while isinstance(t, (ArrT, StructT)):
                if isinstance(t, ArrT): t = M.resolve(t.el)
                else:
                    fs = [M.resolve(f) for f in t.fields]
                    if not fs: return None
                    t = fs[0]
            return t
        def kind_of(v, depth=0):
            if v[0] != 'reg' or depth > 6 or v[1] not in defs: return 'b'
            j = defs[v[1]]
            src = None
            if j.op == 'cast' and j.a[0] == 'bitcast': src = (j.a[1], j.a[2])
            elif j.op == 'gep': src = (PtrT(j.a[0]), j.a[1])
            elif j.op == 'alloca': src = (PtrT(j.a[0]), None)
            if src is None: return 'b'
            ft = M.resolve(src[0])
            if isinstance(ft, PtrT):
                et = scalar(ft.to)
                if isinstance(et, PtrT): return 'p'
                if isinstance(et, IntT) and et.n == 32: return 'w'
                if isinstance(et, IntT) and et.n == 64: return 'q'
                if isinstance(et, IntT) and et.n == 8 and src[1] is not None: return kind_of(src[1], depth + 1)
            return 'b'
        kinds = set(kind_of(v) for v in vals)
        return kinds.pop() if len(kinds) == 1 else 'b'

    # ---- final text
    def render(s, alloca_decl):
        G, X = s.G, s.X
        lines = []
        if s.thread:
            P = s.pfx
            decl = [f"static int {P}run, {P}pc = -2, {P}done; static unsigned {P}budget;"]
            for (ct, nm) in s.decls: decl.append(f"static {ct} {nm};")
            for (ty, nm) in alloca_decl: decl.append("static " + G.obj_decl(ty, nm) + ";")
            body = [f"void thr_{s.tname}(void) {{", f"  if ({P}pc == -1) return;", f"  {P}run = ({P}pc == -2);"]
            region = []
            def flush():
                if region:
                    body.append(f"  if ({P}run) {{ " + ' '.join(region) + " }")
                    region.clear()
            for (k, t) in s.out:
                if k == 'L': flush(); body.append(f"{t}: ;")
                elif k == 'S': region.append(t)
                elif k == 'T': region.append(t); flush()
                elif k == 'V': flush(); body.append("  " + t)
            flush()
            body.append("L__end: ;")
            body.append("}")
            return '\n'.join(decl), '\n'.join(body), s.vis
        # plain
        rt = s.M.resolve(X.ret)
        rct = 'void' if isinstance(rt, VoidT) else G.ctype(X.ret)
        params = ', '.join(f"{G.ctype(ty)} {s.env[nm]}" for (ty, nm) in X.params) or 'void'
        pnames = set(s.env[nm] for (_, nm) in X.params)
        body = [f"{rct} {G.fname(X.name)}({params}) {{"]
        for (ct, nm) in s.decls:
            if nm not in pnames: body.append(f"  {ct} {nm};")
        for (ty, nm) in alloca_decl: body.append("  " + G.obj_decl(ty, nm) + ";")
        for (k, t) in s.out:
            if k == 'L': body.append(f"{t}: ;")
            else: body.append("  " + t)
        body.append("}")
        proto = f"{rct} {G.fname(X.name)}({params});"
        return proto, '\n'.join(body), s.vis


def globref_ti(G, cv):
    gl = []; val_globs(cv, gl)
    return G.globref(gl[0])
CGen.globref_ti = globref_ti
