#!/usr/bin/env python3
"""Per-property query lists (what is encoded, with which bounds). See DESIGN.md section 7."""
import itertools, os
from vcheck import Query

COMMON_ASSUMPTIONS = [
    "sequentially consistent interleaving semantics at the granularity of LLVM IR memory instructions (clang++-14 -O1 output), "
    "except where the happens-before monitor is switched on (C07/C19)",
    "operator new never fails; pthread primitives never return error codes other than EBUSY/ETIMEDOUT",
    "weak compare-exchange never fails spuriously",
    "time is abstracted: timed operations have an always-enabled time-out transition; the clock is an arbitrary non-decreasing value",
    "indirect calls (virtual functions, std::function, shared_ptr control blocks) execute atomically; a schedule in which such an atomic section would have to wait for a lock held by another thread is not explored from that point (a lock held by the calling thread itself is reported as self-deadlock)",
    "bounded: threads, operations per thread, rounds (contexts per thread), loop unwinding as listed per query; "
    "--unwinding-assertions is on for every verify run",
    "trusted base: clang++-14 front end and -O1 pipeline, engine/ir2c.py, engine/vpmodels.h, cbmc 6.11, the SAT back end",
]


def orders(n, which):
    perms = list(itertools.permutations(range(n)))
    if which == 'all': return perms
    if which == 'first': return perms[:1]
    return [tuple(p) for p in which]


def mk(name, cpp, threads, rounds, order=None, **kw):
    q = dict(setup=kw.pop('setup', 'vp_setup'), threads=threads, rounds=rounds, order=list(order) if order else list(range(len(threads))))
    for k in ('final', 'cover', 'solo', 'opts', 'maxb', 'seq'):
        if k in kw: q[k] = kw.pop(k)
    return Query(name, cpp, q, **kw)


# ------------------------------------------------------------------------------------------------ C03
def c03(tier):
    qs = []
    W, R1, R2 = ('W', 'vp_writer'), ('R1', 'vp_reader'), ('R2', 'vp_reader')
    if tier == 'quick':
        qs.append(mk('lr_w2_r1_r1_R3', 'c03_lr.cpp', [W, R1, R2], 3, final='vp_final', cover=3, defines=['NWRITES=2', 'NREADS=1'], timeout=900))
        qs.append(mk('lr_w2_r2_R3_try', 'c03_lr.cpp', [W, R1], 3, final='vp_final', cover=3, defines=['NWRITES=2', 'NREADS=2', 'READ_TRY'], timeout=900))
        qs.append(mk('lr_w1_r2_R3_tryfor_until', 'c03_lr.cpp', [W, R1], 3, final='vp_final', cover=3, defines=['NWRITES=1', 'NREADS=2', 'READ_TRYFOR'], timeout=900))
        qs.append(mk('lr_w1_w1_r1_R3', 'c03_lr.cpp', [('W1', 'vp_writer'), ('W2', 'vp_writer'), R1], 3, final='vp_final', cover=3,
                     defines=['NWRITES=1', 'NREADS=1'], timeout=900))
        qs.append(mk('lr_w1_w1_r1_R3_o201', 'c03_lr.cpp', [('W1', 'vp_writer'), ('W2', 'vp_writer'), R1], 3, order=(2, 0, 1), final='vp_final', cover=3,
                     defines=['NWRITES=1', 'NREADS=1'], timeout=900))
        # "every behaviour the memory model allows for the chosen memory orders": the same scenario under the happens-before / stale-read monitor (see C07)
        qs.append(mk('hb_lr_w1_r1_R3', 'c03_lr.cpp', [W, R1], 3, final='vp_final', cover=3, defines=['NWRITES=1', 'NREADS=1'],
                     opts={'hb': True, 'yield_blocks': True}, timeout=1500))
    else:
        for o in orders(3, 'all'):
            qs.append(mk('lr_w2_r1_r1_R4_o' + ''.join(map(str, o)), 'c03_lr.cpp', [W, R1, R2], 4, order=o, final='vp_final', cover=3,
                         defines=['NWRITES=2', 'NREADS=1'], timeout=2400))
        qs.append(mk('lr_w2_r2_r2_R3', 'c03_lr.cpp', [W, R1, R2], 3, final='vp_final', cover=3, defines=['NWRITES=2', 'NREADS=2'], timeout=2400))
        qs.append(mk('lr_w1_w1_r2_R3', 'c03_lr.cpp', [('W1', 'vp_writer'), ('W2', 'vp_writer'), R1], 3, final='vp_final', cover=3,
                     defines=['NWRITES=1', 'NREADS=2'], timeout=2400))
        for od in orders(3, 'all'):
            qs.append(mk('lr_w1_w1_r1_R4_o' + ''.join(map(str, od)), 'c03_lr.cpp', [('W1', 'vp_writer'), ('W2', 'vp_writer'), R1], 4, order=od, final='vp_final', cover=3,
                         defines=['NWRITES=1', 'NREADS=1'], timeout=2400))
        qs.append(mk('hb_lr_w1_r1_R3', 'c03_lr.cpp', [W, R1], 3, final='vp_final', cover=3, defines=['NWRITES=1', 'NREADS=1'],
                     opts={'hb': True, 'yield_blocks': True}, timeout=3000))
    return qs


SPECS = {
    'C03': dict(queries=c03, assumptions=COMMON_ASSUMPTIONS + [
        "sched_yield() inside the two drain loops is a fair-spin blocking point: the writer is rescheduled only after some shared location changed",
        "payload type {int a; int b;}; functor increments both fields; the try_lock_shared forms are covered by the READ_TRY query (they forward to lock_shared)"],
        outside=["more than 2 writers / 2 readers / 2 operations each", "schedules needing more contexts per thread than 'rounds'",
                 "behaviours that only weaker-than-SC hardware/compilers exhibit (see C07 for the happens-before part)"]),
}


# ------------------------------------------------------------------------------------------------ C09
def c09(tier):
    qs = []
    def P(n): return [(f'P{i + 1}', f'vp_part{i + 1}') for i in range(n)]
    o = {'spur': 1, 'yield_blocks': False}
    if tier == 'quick':
        # drop generation of each participant is enumerated (one solver query per combination); schedules stay symbolic
        for d1 in range(3):
            for d2 in range(d1, 3):
                qs.append(mk(f'bar_n2_g2_d{d1}{d2}_R4', 'c09_barrier.cpp', P(2), 4, cover=3,
                             defines=['NPART=2', 'NGEN=2', f'DROP1={d1}', f'DROP2={d2}'], opts=o, unwind=3))
        qs.append(mk('bar_n3_g2_d122_R3', 'c09_barrier.cpp', P(3), 3, cover=7, defines=['NPART=3', 'NGEN=2', 'DROP1=1', 'DROP2=2', 'DROP3=2'], opts=o, unwind=3))
        qs.append(mk('bar_n3_g2_d022_R3', 'c09_barrier.cpp', P(3), 3, cover=7, defines=['NPART=3', 'NGEN=2', 'DROP1=0', 'DROP2=2', 'DROP3=2'], opts=o, unwind=3))
    else:
        o2 = {'spur': 2, 'yield_blocks': False}
        qs.append(mk('bar_n2_g2_symdrop_R4', 'c09_barrier.cpp', P(2), 4, cover=3, defines=['NPART=2', 'NGEN=2', 'SYMDROP'], opts=o2, unwind=4, timeout=2400))
        for d1 in range(4):
            for d2 in range(d1, 4):
                qs.append(mk(f'bar_n2_g3_d{d1}{d2}_R5', 'c09_barrier.cpp', P(2), 5, cover=3,
                             defines=['NPART=2', 'NGEN=3', f'DROP1={d1}', f'DROP2={d2}'], opts=o2, unwind=4, timeout=2400))
        for (d1, d2, d3) in [(2, 2, 2), (0, 2, 2), (1, 2, 2), (0, 1, 2), (0, 0, 2), (1, 1, 2)]:
            qs.append(mk(f'bar_n3_g2_d{d1}{d2}{d3}_R4', 'c09_barrier.cpp', P(3), 4, cover=7,
                         defines=['NPART=3', 'NGEN=2', f'DROP1={d1}', f'DROP2={d2}', f'DROP3={d3}'], opts=o, unwind=3, timeout=2400))
    return qs


SPECS['C09'] = dict(queries=c09, assumptions=COMMON_ASSUMPTIONS + [
    "std::condition_variable::wait/notify_all modelled below the libstdc++.so ABI: wait = atomically release mutex + enqueue, resume when notified "
    "or spuriously (per-thread budget 'spur'), then re-acquire; lost wake-up = deadlock assertion (exact state predicate, not a time-out)"],
    outside=["more than 3 participants or 3 generations", "a Barrier whose participants all dropped (threshold 0)"])


# ------------------------------------------------------------------------------------------------ C10
def c10(tier):
    qs = []
    o = {'spur': 1, 'yield_blocks': False}
    Wt, A, AW = 'vp_waiter', 'vp_arriver', 'vp_arrive_wait'
    if tier == 'quick':
        qs.append(mk('latch_w_a2_R4', 'c10_latch.cpp', [('W', Wt), ('A', A)], 4, cover=3, defines=['NARRIVE=2'], opts=o, unwind=4, tv_order=(1, 0)))
        qs.append(mk('latch_w_a1_aw_R3', 'c10_latch.cpp', [('W', Wt), ('A', A), ('AW', AW)], 3, cover=7, defines=['NARRIVE=1'], opts=o, unwind=4))
        qs.append(mk('latch_w_w_a3_R3', 'c10_latch.cpp', [('W1', Wt), ('W2', Wt), ('A', A)], 3, cover=7, defines=['NARRIVE=3'], opts=o, unwind=5, tv_order=(2, 0, 1)))
    else:
        o2 = {'spur': 2, 'yield_blocks': False}
        for od in orders(3, 'all'):
            qs.append(mk('latch_w_a1_aw_R4_o' + ''.join(map(str, od)), 'c10_latch.cpp', [('W', Wt), ('A', A), ('AW', AW)], 4, order=od, cover=7,
                         defines=['NARRIVE=1'], opts=o2, unwind=5, timeout=2400))
        qs.append(mk('latch_w_w_a3_R4', 'c10_latch.cpp', [('W1', Wt), ('W2', Wt), ('A', A)], 4, cover=7, defines=['NARRIVE=3'], opts=o2, unwind=5, timeout=2400))
        qs.append(mk('latch_w_aw_aw_a1_R3', 'c10_latch.cpp', [('W', Wt), ('AW1', AW), ('AW2', AW), ('A', A)], 3, cover=15, defines=['NARRIVE=1'], opts=o, unwind=5, timeout=2400))
    return qs


SPECS['C10'] = dict(queries=c10, assumptions=COMMON_ASSUMPTIONS + [
    "condition variable model as in C09; the initial count is symbolic in {1,2}; every scenario issues at least 'count' arrivals, so any blocked waiter at the end is a lost wake-up"],
    outside=["counts above 2, more than 4 threads, more than 3 arrivals per thread"])


# ------------------------------------------------------------------------------------------------ C11
def c11(tier):
    qs = []
    o = {'spur': 1, 'yield_blocks': False}
    if tier == 'quick':
        qs.append(mk('tv_wait_trigger_R3', 'c11_trigger.cpp', [('Wt', 'vp_waiter'), ('Wf', 'vp_waiter_for'), ('T', 'vp_triggerer')], 3,
                     setup='vp_setup_active', cover=7, opts=o, unwind=4, tv_order=(2, 0, 1)))
        qs.append(mk('tv_wait_reset_R3', 'c11_trigger.cpp', [('Wt', 'vp_waiter'), ('Rs', 'vp_resetter'), ('T', 'vp_triggerer')], 3,
                     setup='vp_setup_active', cover=7, opts=o, unwind=4, defines=['WITH_RESET']))
        qs.append(mk('tv_activation_R3', 'c11_trigger.cpp', [('Wa', 'vp_act_waiter'), ('Wf', 'vp_act_waiter_for'), ('A', 'vp_activator')], 3,
                     setup='vp_setup_inactive', cover=7, opts=o, unwind=4, tv_order=(2, 0, 1)))
        qs.append(mk('tv_activate_vs_trigger_R3', 'c11_trigger.cpp', [('A', 'vp_activator_once'), ('T', 'vp_trigger_retry'), ('W', 'vp_act_then_wait')], 3,
                     setup='vp_setup_inactive', final='vp_final_triggered', cover=7, opts=o, unwind=4))
        qs.append(mk('tv_activate_vs_trigger_R3_o120', 'c11_trigger.cpp', [('A', 'vp_activator_once'), ('T', 'vp_trigger_retry'), ('W', 'vp_act_then_wait')], 3,
                     order=(1, 2, 0), setup='vp_setup_inactive', final='vp_final_triggered', cover=7, opts=o, unwind=4))
        qs.append(mk('tv_sequential', 'c11_trigger.cpp', [], 1, setup='vp_setup_inactive', seq=['vp_seq_inactive'], cover=1, unwind=4))
    else:
        for od in orders(3, 'all'):
            qs.append(mk('tv_activate_vs_trigger_R4_o' + ''.join(map(str, od)), 'c11_trigger.cpp', [('A', 'vp_activator_once'), ('T', 'vp_trigger_retry'), ('W', 'vp_act_then_wait')], 4,
                         order=od, setup='vp_setup_inactive', final='vp_final_triggered', cover=7, opts={'spur': 2, 'yield_blocks': False}, unwind=5, timeout=2400))
        o2 = {'spur': 2, 'yield_blocks': False}
        for od in orders(3, 'all'):
            s_ = ''.join(map(str, od))
            qs.append(mk('tv_wait_trigger_R4_o' + s_, 'c11_trigger.cpp', [('Wt', 'vp_waiter'), ('Wf', 'vp_waiter_for'), ('T', 'vp_triggerer')], 4, order=od,
                         setup='vp_setup_active', cover=7, opts=o2, unwind=5, timeout=2400))
            qs.append(mk('tv_wait_reset_R4_o' + s_, 'c11_trigger.cpp', [('Wt', 'vp_waiter'), ('Rs', 'vp_resetter'), ('T', 'vp_triggerer')], 4, order=od,
                         setup='vp_setup_active', cover=7, opts=o2, unwind=5, timeout=2400, defines=['WITH_RESET']))
        qs.append(mk('tv_activation_2act_R4', 'c11_trigger.cpp', [('Wa', 'vp_act_waiter'), ('Wf', 'vp_act_waiter_for'), ('A1', 'vp_activator'), ('A2', 'vp_activator')], 4,
                     setup='vp_setup_inactive', cover=15, opts=o2, unwind=5, timeout=2400))
        qs.append(mk('tv_wait_2trig_reset_R3', 'c11_trigger.cpp', [('Wt', 'vp_waiter'), ('Wf', 'vp_waiter_for'), ('T', 'vp_triggerer'), ('Rs', 'vp_resetter')], 3,
                     setup='vp_setup_active', cover=15, opts=o, unwind=5, timeout=2400, defines=['WITH_RESET']))
        qs.append(mk('tv_sequential', 'c11_trigger.cpp', [], 1, setup='vp_setup_inactive', seq=['vp_seq_inactive'], cover=1, unwind=4))
    return qs


SPECS['C11'] = dict(queries=c11, assumptions=COMMON_ASSUMPTIONS + [
    "condition variable model as in C09, timed waits additionally have an always-enabled time-out transition; "
    "libstdc++'s chrono -> timespec conversion divides by 10^9: the encoder replaces that quotient by 0 and the models read {sec,nsec} as sec*10^9+nsec",
    "liveness (event wakes every blocked waiter) is asserted as absence of deadlock, only in scenarios without re-activation (the property's proviso)"],
    outside=["re-activation while waiters are blocked", "more than 4 threads", "real-time durations (time is a nondeterministic time-out)"])


# ------------------------------------------------------------------------------------------------ C01 / C02
WRAPS = {'guarded': 1, 'guarded_opt': 2, 'shared_guarded': 3, 'shared_guarded_opt': 4, 'ordered_guarded': 5}
MUTEXES = {'mutex': 1, 'timed_mutex': 2, 'shared_mutex': 3, 'shared_timed_mutex': 4}


def gq(name, wrap, mutex, ops, rounds, cover_extra=0, **kw):
    """ops: list of per-thread operation lists (names without the OP_ prefix)"""
    threads = [(f'T{i + 1}', f'vp_t{i + 1}') for i in range(len(ops))]
    defines = [f'WRAP={WRAPS[wrap]}', f'MUTEX={MUTEXES[mutex]}'] + [f"T{i + 1}_OPS=" + ','.join('OP_' + o for o in ol) for i, ol in enumerate(ops)]
    cover = (1 << len(ops)) - 1
    kw.setdefault('unwind', 2)
    return mk(name, 'c01_guarded.cpp', threads, rounds, final='vp_final', cover=cover, defines=defines,
              opts={'yield_blocks': False}, must_cover=cover_extra, **kw)


def c01(tier):
    qs = []
    R = 3 if tier == 'quick' else 4
    to = 900 if tier == 'quick' else 3000
    if tier == 'quick':
        qs.append(gq('guarded_mutex', 'guarded', 'mutex', [['LOCK_RMW', 'LOAD'], ['TRY_RMW', 'STORE']], 3))
        qs.append(gq('guarded_timed', 'guarded', 'timed_mutex', [['TRYFOR_RMW', 'LOCK_RMW'], ['TRYUNTIL_RMW', 'ASSIGN']], 3))
        qs.append(gq('guarded_opt_mutex', 'guarded_opt', 'mutex', [['LOCK_RMW', 'STORE'], ['LOAD', 'TRY_RMW']], 3))
        qs.append(gq('ordered_stm', 'ordered_guarded', 'shared_timed_mutex', [['MODIFY', 'LOAD'], ['STORE', 'MODIFY']], 3))
        qs.append(gq('guarded_mutex_3t', 'guarded', 'mutex', [['LOCK_RMW'], ['LOCK_RMW'], ['TRY_RMW']], 2))
    # every wrapper x mutex type, three threads, two operations each
    for w in ('guarded', 'guarded_opt', 'shared_guarded', 'shared_guarded_opt'):
        for m in MUTEXES:
            timed = m in ('timed_mutex', 'shared_timed_mutex')
            t1 = ['LOCK_RMW', 'TRYFOR_RMW' if timed else 'TRY_RMW']
            t2 = ['TRYUNTIL_RMW' if timed else 'TRY_RMW', 'LOCK_RMW']
            t3 = ['LOAD', 'STORE'] if w in ('guarded', 'guarded_opt') else ['LOCK_RMW']
            qs.append(gq(f'{w}_{m}_3t_R{R}', w, m, [t1, t2, t3], R, timeout=to))
            if w in ('guarded', 'guarded_opt'):
                # every whole-object operation of every wrapper x mutex type appears at least once (operator= was missing: seed C01-s2)
                qs.append(gq(f'{w}_{m}_assign_R{R}', w, m, [['LOCK_RMW', 'ASSIGN'], ['ASSIGN', 'LOAD'], ['TRY_RMW', 'STORE']], R, timeout=to))
    for m in MUTEXES:
        qs.append(gq(f'ordered_{m}_3t_R{R}', 'ordered_guarded', m, [['MODIFY', 'LOAD'], ['STORE', 'MODIFY'], ['MODIFY', 'ASSIGN']], R, timeout=to))
        qs.append(gq(f'ordered_{m}_store_store_R{R}', 'ordered_guarded', m, [['STORE', 'LOAD'], ['STORE', 'ASSIGN'], ['ASSIGN', 'LOAD']], R, timeout=to))
    if tier != 'quick':
        for w in ('guarded', 'guarded_opt'):
            for m in MUTEXES:
                qs.append(gq(f'{w}_{m}_4t_R3', w, m, [['LOCK_RMW'], ['TRY_RMW'], ['LOAD', 'STORE'], ['ASSIGN', 'LOCK_RMW']], 3, timeout=to))
        for w in ('shared_guarded', 'shared_guarded_opt'):
            for m in MUTEXES:
                qs.append(gq(f'{w}_{m}_4t_R3', w, m, [['LOCK_RMW'], ['TRY_RMW'], ['LOCK_RMW', 'TRY_RMW'], ['TRY_RMW', 'LOCK_RMW']], 3, timeout=to))
        qs.append(gq('guarded_mutex_2t_L3_R5', 'guarded', 'mutex', [['LOCK_RMW', 'LOAD', 'STORE'], ['TRY_RMW', 'STORE', 'LOCK_RMW']], 5, timeout=to))
    return qs


SPECS['C01'] = dict(queries=c01, assumptions=COMMON_ASSUMPTIONS + [
    "payload {int a; int b;} with two-step copy/assignment (a, switch point, b): an access that overlaps another shows up as a != b, a lost update as a wrong final count",
    "pthread_mutex / pthread_rwlock modelled as owner word / writer word + reader mask; lock blocks while held; timed forms may time out whenever they would block",
    "the client program (one operation list per thread) is fixed per query; interleavings are symbolic"],
    outside=["recursive mutexes, operator T()", "more than 4 threads or 2 operations per thread", "client programs not in the enumerated list"])


def c02(tier):
    qs = []
    R = 3 if tier == 'quick' else 4
    to = 900 if tier == 'quick' else 3000
    if tier == 'quick':
        qs.append(gq('shared_guarded_smutex_rrw', 'shared_guarded', 'shared_mutex', [['SHARED_READ'], ['SHARED_READ'], ['LOCK_RMW']], 3, cover_extra=128))
        qs.append(gq('shared_guarded_stm_timed', 'shared_guarded', 'shared_timed_mutex', [['TRYSHAREDFOR_READ'], ['CLOCK_READ'], ['TRYFOR_RMW']], 3, cover_extra=128))
        qs.append(gq('ordered_stm_read_modify', 'ordered_guarded', 'shared_timed_mutex', [['CLOCK_READ'], ['SHARED_READ'], ['MODIFY']], 3, cover_extra=128))
        qs.append(gq('shared_guarded_mutex_fallback', 'shared_guarded', 'mutex', [['SHARED_READ'], ['TRYSHARED_READ'], ['LOCK_RMW']], 3))
        qs.append(gq('ordered_stm_timed_shared', 'ordered_guarded', 'shared_timed_mutex', [['TRYSHAREDFOR_READ'], ['TRYSHAREDUNTIL_READ'], ['MODIFY', 'STORE']], 3))
    for w in ('shared_guarded', 'shared_guarded_opt', 'ordered_guarded'):
        for m in MUTEXES:
            timed = m in ('timed_mutex', 'shared_timed_mutex')
            sharedcap = m in ('shared_mutex', 'shared_timed_mutex')
            r1 = ['SHARED_READ', 'TRYSHAREDFOR_READ' if timed else 'TRYSHARED_READ']
            r2 = ['CLOCK_READ', 'TRYSHAREDUNTIL_READ' if timed else 'TRYSHARED_READ']
            wr = ['MODIFY', 'STORE'] if w == 'ordered_guarded' else ['LOCK_RMW', 'TRYFOR_RMW' if timed else 'TRY_RMW']
            qs.append(gq(f'{w}_{m}_rrw_R{R}', w, m, [r1, r2, wr], R, cover_extra=128 if sharedcap else 0, timeout=to))
    if tier != 'quick':
        for w in ('shared_guarded', 'shared_guarded_opt', 'ordered_guarded'):
            for m in MUTEXES:
                timed = m in ('timed_mutex', 'shared_timed_mutex')
                sharedcap = m in ('shared_mutex', 'shared_timed_mutex')
                wr1 = ['MODIFY'] if w == 'ordered_guarded' else ['LOCK_RMW']
                wr2 = ['STORE'] if w == 'ordered_guarded' else ['TRY_RMW']
                qs.append(gq(f'{w}_{m}_rrww_R3', w, m, [['SHARED_READ'], ['TRYSHARED_READ', 'CLOCK_READ'], wr1, wr2], 3,
                             cover_extra=128 if sharedcap else 0, timeout=to))
    return qs


SPECS['C02'] = dict(queries=c02, assumptions=SPECS['C01']['assumptions'] + [
    "'readers can share' is decided twice: the witness of the shared-capable queries must reach a state with two readers inside (coverage bit 7), "
    "and a shared acquisition that ends a context blocked while only readers hold the lock is an assertion failure",
    "pthread_rwlock model follows glibc's default: readers are not held back by waiting writers",
    "the deferred_guarded clause of C02 is decided by the C06 harness"],
    outside=["more than 4 threads or 2 operations per thread", "writer starvation / fairness"])


# ------------------------------------------------------------------------------------------------ C08
FORMS = {'try_lock': 1, 'try_lock_for': 2, 'try_lock_until': 3, 'try_lock_shared': 4, 'try_lock_shared_for': 5,
         'try_lock_shared_until': 6, 'lock': 7, 'lock_shared': 8, 'const_lock': 9}


def hq(wrap, mutex, form, hold, rounds=3, disabled=False, **kw):
    name = f"{wrap}_{mutex}_{form}_hold{hold}" + ('_disabled' if disabled else '')
    defines = [f'WRAP={WRAPS[wrap]}', f'MUTEX={MUTEXES[mutex]}', f'FORM={FORMS[form]}', f'HOLD={hold}'] + (['DISABLED'] if disabled else [])
    return mk(name, 'c08_handles.cpp', [('X', 'vp_holder'), ('Y', 'vp_contender')], rounds, final='vp_final', cover=3, defines=defines,
              opts={'yield_blocks': False}, unwind=2, must_cover=(4 if (hold == 0 or disabled) else 0), **kw)


def c08_combos():
    out = []
    for w in ('guarded', 'guarded_opt', 'shared_guarded', 'shared_guarded_opt', 'ordered_guarded'):
        for m in MUTEXES:
            timed = m in ('timed_mutex', 'shared_timed_mutex')
            forms = []
            if w != 'ordered_guarded':
                forms += ['try_lock', 'lock'] + (['try_lock_for', 'try_lock_until'] if timed else [])
            if w in ('shared_guarded', 'shared_guarded_opt', 'ordered_guarded'):
                forms += ['try_lock_shared', 'lock_shared'] + (['try_lock_shared_for', 'try_lock_shared_until'] if timed else [])
            for f in forms:
                holds = [0, 1] + ([2] if w in ('shared_guarded', 'shared_guarded_opt', 'ordered_guarded') else [])
                if w == 'ordered_guarded': holds = [0, 2]
                for h in holds:
                    out.append((w, m, f, h, False))
            if w in ('shared_guarded', 'shared_guarded_opt'):
                for h in (0, 1, 3):
                    out.append((w, m, 'const_lock', h, False))
            if w in ('guarded_opt', 'shared_guarded_opt'):
                for f in forms:
                    out.append((w, m, f, 1, True))
            if w == 'shared_guarded_opt':
                # disabled locking: the const overload and the shared forms must not touch the mutex either, even against each other
                out.append((w, m, 'const_lock', 3, True))
                out.append((w, m, 'const_lock', 2, True))
                out.append((w, m, 'lock_shared', 3, True))
    return out


def c08(tier):
    combos = c08_combos()
    if tier == 'quick':
        # every (wrapper, form) pair once, rotating through the mutex types that support the form; every disabled form once
        seen = set(); pick = []
        for k, c in enumerate(combos):
            key = (c[0], c[2], c[4], c[3] != 0)
            if key in seen: continue
            if c[1] in ('mutex', 'shared_mutex') and c[2] in ('try_lock', 'lock', 'try_lock_shared', 'lock_shared') and (hash((c[0], c[2])) % 2 == 0) and not c[4]:
                continue   # leave this (wrapper, form) to a timed mutex type further down the list
            seen.add(key); pick.append(c)
        return [hq(*c[:4], disabled=c[4]) for c in pick]
    return [hq(*c[:4], rounds=4, disabled=c[4], timeout=1200) for c in combos]


SPECS['C08'] = dict(queries=c08, assumptions=SPECS['C01']['assumptions'] + [
    "'lock obtained' is read from the pthread model (owner word / reader mask) right after the acquisition returns, atomically with its last visible step",
    "the handle life-cycle (destroy | unlock() | move-construct | move-assign over a handle of a second wrapper) is a symbolic choice inside every query",
    "'never blocking beyond the given time' is not decided (time is abstract); that untimed try-forms never block is decided via the per-thread blocked-context counter",
    "the truth value of a moved-from handle is left unconstrained (the defaulted move keeps the data pointer)"],
    outside=["cow_guarded / lr_guarded try forms (C04, C03)", "deferred_guarded shared try-forms (C06 harness)", "recursive mutexes"])


# ------------------------------------------------------------------------------------------------ C15
WRAPS['atomic_guarded'] = 6


LIN_UNWIND = ','.join(f'vp_lin_check.{k}:66' for k in range(5))


def aq(name, wrap, ops, rounds, **kw):
    threads = [(f'T{i + 1}', f'vp_t{i + 1}') for i in range(len(ops))]
    defines = [f'WRAP={WRAPS[wrap]}'] + [f"T{i + 1}_OPS=" + ','.join('OP_' + o for o in ol) for i, ol in enumerate(ops)]
    kw.setdefault('unwind', 2)
    kw.setdefault('unwindset', LIN_UNWIND)
    kw.setdefault('extra_flags', [f'-DVP_HN={sum(len(o) for o in ops)}'])
    return mk(name, 'c15_atomic.cpp', threads, rounds, final='vp_final', cover=(1 << len(ops)) - 1, defines=defines,
              opts={'yield_blocks': False}, **kw)


def c15(tier):
    qs = []
    seqd = lambda w, ol: [f'WRAP={WRAPS[w]}', 'T1_OPS=' + ','.join('OP_' + o for o in ol)]
    if tier == 'quick':
        qs.append(aq('atomic_xchg_cas_load', 'atomic_guarded', [['XCHG', 'LOAD'], ['CAS', 'STORE']], 3))
        qs.append(aq('atomic_cas_cas_load_3t', 'atomic_guarded', [['CAS'], ['CAS'], ['LOAD']], 3))
        qs.append(aq('atomic_assign_xchg_3t', 'atomic_guarded', [['ASSIGN'], ['XCHG'], ['LOAD']], 3))
        qs.append(aq('guarded_load_store', 'guarded', [['STORE', 'LOAD'], ['ASSIGN', 'LOAD']], 3))
        qs.append(aq('guarded_opt_load_store', 'guarded_opt', [['LOAD', 'STORE'], ['ASSIGN', 'LOAD']], 3))
        qs.append(aq('ordered_load_store', 'ordered_guarded', [['STORE', 'LOAD'], ['LOAD', 'ASSIGN']], 3))
        qs.append(mk('atomic_seq4', 'c15_atomic.cpp', [], 1, seq=['vp_seq'], cover=1, defines=seqd('atomic_guarded', ['STORE', 'CAS', 'XCHG', 'LOAD']), unwind=2, unwindset=LIN_UNWIND, extra_flags=['-DVP_HN=4']))
        qs.append(mk('atomic_seq4b', 'c15_atomic.cpp', [], 1, seq=['vp_seq'], cover=1, defines=seqd('atomic_guarded', ['CAS', 'LOAD', 'CAS', 'XCHG']), unwind=2, unwindset=LIN_UNWIND, extra_flags=['-DVP_HN=4']))
    else:
        for t3 in (['LOAD', 'LOAD'], ['XCHG', 'CAS'], ['STORE', 'LOAD']):
            qs.append(aq('atomic_3t_L2_' + '_'.join(t3).lower(), 'atomic_guarded', [['XCHG', 'LOAD'], ['CAS', 'ASSIGN'], t3], 3, timeout=2400))
        qs.append(aq('atomic_2t_L2_R4', 'atomic_guarded', [['CAS', 'XCHG'], ['CAS', 'LOAD']], 4, timeout=2400))
        for w in ('guarded', 'guarded_opt', 'ordered_guarded'):
            qs.append(aq(f'{w}_3t_L2', w, [['STORE', 'LOAD'], ['ASSIGN', 'LOAD'], ['LOAD', 'STORE']], 3, timeout=2400))
        import itertools as it
        for k, seq in enumerate(it.product(['STORE', 'CAS', 'XCHG', 'LOAD'], repeat=3)):
            qs.append(mk('atomic_seq_' + '_'.join(seq).lower(), 'c15_atomic.cpp', [], 1, seq=['vp_seq'], cover=1,
                         defines=seqd('atomic_guarded', list(seq) + ['LOAD']), unwind=2, unwindset=LIN_UNWIND, solvers=('minisat',), extra_flags=['-DVP_HN=4']))
    return qs


SPECS['C15'] = dict(queries=c15, assumptions=SPECS['C01']['assumptions'] + [
    "register values are symbolic in {0,1,2}, stored as {v,v}; copy, assignment and == of the payload are two-step (switch point between the fields)",
    "every completed history (invoke/response stamps, arguments, results) is checked inside the formula against a sequential register by a subset "
    "dynamic program over all real-time-compatible linearisations (vpmodels.h vp_lin_check)"],
    outside=["deferred_guarded::load (C06 harness)", "more than 3 threads / 2 operations per thread / 6 operations per history", "value domains larger than 3"])


# ------------------------------------------------------------------------------------------------ C05 (rcu_list reclamation)
RCU_T = {'A': ('A', 'vp_reader'), 'B': ('B', 'vp_writer'), 'C': ('C', 'vp_short'), 'D': ('D', 'vp_writer2')}


def rq(name, tl, rounds, order=None, defines=(), unwind=6, **kw):
    threads = [RCU_T[t] for t in tl]
    cover = 0
    for t in tl: cover |= {'A': 1, 'B': 2, 'C': 4, 'D': 4}[t]
    kw.setdefault('timeout', 900)
    opts = kw.pop('opts_override', None) or {'yield_blocks': False}
    return mk(name, 'c05_rcu.cpp', threads, rounds, order=order, final='vp_final', cover=cover, defines=list(defines),
              opts=opts, unwind=unwind, checks='pointer', **kw)


def c05(tier):
    qs = []
    d = ['ERASE_POS=-1', 'PUSH_BACK']
    if tier == 'quick':
        qs.append(rq('rcu_reader_writer_R3', 'AB', 3, defines=d))
        qs.append(rq('rcu_writer_short_R3', 'BC', 3, defines=d))
        qs.append(rq('rcu_abc_R2_o012', 'ABC', 2, order=(0, 1, 2), defines=d))
        qs.append(rq('rcu_abc_R2_o120', 'ABC', 2, order=(1, 2, 0), defines=d))
        # a stale second erase (neighbour erased meanwhile) must not re-link retired nodes: a later handle would walk into freed memory
        qs.append(rq('rcu_eraser2_stale_eraser_short_R2', 'BDC', 2, order=(1, 0, 2), defines=['ERASE_POS=0', 'ERASE_TWO', 'W2_ERASE_FIRST']))
    else:
        for o in orders(3, 'all'):
            qs.append(rq('rcu_abc_R2_o' + ''.join(map(str, o)), 'ABC', 2, order=o, defines=d, timeout=3000, solvers=('kissat', 'cadical', 'minisat')))
        qs.append(rq('rcu_reader_writer_R4', 'AB', 4, defines=d, timeout=3000))
        qs.append(rq('rcu_eraser2_stale_eraser_short_R2', 'BDC', 2, order=(1, 0, 2), defines=['ERASE_POS=0', 'ERASE_TWO', 'W2_ERASE_FIRST'], timeout=3000))
        qs.append(rq('rcu_writer_short_R4', 'BC', 4, defines=d, timeout=3000))
        qs.append(rq('rcu_n3_erase_mid_abc_R2', 'ABC', 2, order=(1, 2, 0), defines=['NINIT=3', 'ERASE_POS=1'], timeout=3000))
        qs.append(rq('rcu_abc_R3_o120', 'ABC', 3, order=(1, 2, 0), defines=['ERASE_POS=0'], timeout=3000, solvers=('kissat', 'cadical')))
    return qs


SPECS['C05'] = dict(queries=c05, assumptions=COMMON_ASSUMPTIONS + [
    "use-after-free / double free are decided by cbmc's pointer checks on the encoded real code (every load/store of rcu_list, rcu_guard, iterators)",
    "operator delete is a context-switch point; freed memory is never re-used by a later allocation (no ABA through address reuse)",
    "list initially holds 2 (3) elements; the writer erases a symbolic position and pushes one element; the reader pauses before every dereference"],
    outside=["more than 3 threads, more than one erase per writer, lists longer than 4", "R=3 for three threads (thorough tier tries one order)"])


# ------------------------------------------------------------------------------------------------ C12
def c12(tier):
    qs = []
    d = ['ERASE_POS=-1', 'PUSH_BACK', 'W2_EMPLACE', 'EXPECT_SUM=75']
    if tier == 'quick':
        qs.append(mk('rculist_seq_3ops', 'c12_rcuseq.cpp', [], 1, seq=['vp_seq'], cover=1, defines=['NOPS=3'], unwind=5, checks='pointer', timeout=900))
        qs.append(rq('rcu_reader_2writers_R2_o012', 'ABD', 2, order=(0, 1, 2), defines=d))
        qs.append(rq('rcu_reader_2writers_R2_o201', 'ABD', 2, order=(2, 0, 1), defines=d))
        qs.append(rq('rcu_2writers_R3', 'BD', 3, defines=d))
        qs.append(rq('rcu_2erasers_same_R3', 'BD', 3, defines=['ERASE_POS=0', 'W2_ERASE_FIRST']))
        # every insertion method against a traversing reader: push_front (emplace_front / push_back are in the queries above)
        qs.append(rq('rcu_reader_pushfront_R3', 'AD', 3, defines=['W2_PUSH_FRONT', 'EXPECT_SUM=35']))
        # a stale second erase of an element whose neighbour was erased meanwhile must stay a no-op
        qs.append(rq('rcu_eraser2_stale_eraser_R3', 'BD', 3, defines=['ERASE_POS=0', 'ERASE_TWO', 'W2_ERASE_FIRST']))
    else:
        qs.append(rq('rcu_2erasers_same_reader_R2', 'ABD', 2, order=(1, 2, 0), defines=['ERASE_POS=0', 'W2_ERASE_FIRST'], timeout=3000))
        qs.append(rq('rcu_2erasers_same_R4', 'BD', 4, defines=['ERASE_POS=0', 'W2_ERASE_FIRST'], timeout=3000))
        qs.append(mk('rculist_seq_4ops', 'c12_rcuseq.cpp', [], 1, seq=['vp_seq'], cover=1, defines=['NOPS=4'], unwind=6, checks='pointer', timeout=3000))
        for o in orders(3, 'all'):
            qs.append(rq('rcu_reader_2writers_R2_o' + ''.join(map(str, o)), 'ABD', 2, order=o, defines=d, timeout=3000))
        qs.append(rq('rcu_2writers_R4', 'BD', 4, defines=d, timeout=3000))
        qs.append(rq('rcu_reader_writer_n3_R3', 'AB', 3, defines=['NINIT=3', 'ERASE_POS=1', 'PUSH_FRONT', 'EXPECT_SUM=65'], timeout=3000))
    return qs


SPECS['C12'] = dict(queries=c12, assumptions=SPECS['C05']['assumptions'] + [
    "sequential query: 3 (4) symbolic operations out of push_front/push_back/emplace_front/emplace_back/erase(k-th), mirrored on a reference array; "
    "after every operation a full traversal must equal the reference and erase must return the successor",
    "concurrent queries: values are chosen so that list order is numeric order; the reader checks order, membership and that elements present for the whole "
    "traversal are visited; final contents must equal the sequential result of the writers' operations (sum / order / erased value absent)"],
    outside=["insert/emplace(pos)/clear (declared, never defined)", "reverse iteration (operator-- does not compile)", "more than 2 writers, 1 reader"])


# ------------------------------------------------------------------------------------------------ C13
def c13(tier):
    qs = []
    TU = ','.join(f'vp_tab_{f}.{k}:10' for f, k in (('find', 0), ('add', 0), ('count', 0)))
    def sq(name, nops, std=False, **kw):
        return mk(name, 'c13_rcualloc.cpp', [], 1, seq=['vp_seq'], cover=1, defines=[f'NOPS={nops}', 'T1_OP2=0'] + (['STD_ALLOC'] if std else []),
                  unwind=7, unwindset=TU, checks='pointer', **kw)
    def cq(name, o1, o1b, o2, rounds, std=False, **kw):
        return mk(name, 'c13_rcualloc.cpp', [('T1', 'vp_t1'), ('T2', 'vp_t2')], rounds, setup='vp_setup2', final='vp_final', cover=3,
                  defines=[f'T1_OP={o1}', f'T1_OP2={o1b}', f'T2_OP={o2}'] + (['STD_ALLOC'] if std else []), unwind=7, unwindset=TU,
                  checks='pointer', opts={'yield_blocks': False}, **kw)
    if tier == 'quick':
        qs.append(sq('rcualloc_seq3_counting', 3, timeout=900))
        qs.append(sq('rcualloc_seq3_stdalloc', 3, std=True, timeout=900))
        qs.append(cq('rcualloc_2t_handle_erase_R2', 0, 0, 2, 2, timeout=900))
        # two writers erasing the same (only) element: it must be unlinked, destroyed and freed once
        qs.append(cq('rcualloc_2t_erase_erase_R2', 2, 0, 2, 2, timeout=900))
    else:
        qs.append(sq('rcualloc_seq5_counting', 5, timeout=3000))
        qs.append(sq('rcualloc_seq4_stdalloc', 4, std=True, timeout=3000))
        qs.append(cq('rcualloc_2t_handle_erase_R3', 0, 0, 2, 3, timeout=3000))
        qs.append(cq('rcualloc_2t_push_erase_R3', 1, 0, 2, 3, timeout=3000))
        qs.append(cq('rcualloc_2t_erase_handles_R3', 2, 3, 0, 3, timeout=3000))
        qs.append(cq('rcualloc_2t_erase_erase_R3', 2, 0, 2, 3, timeout=3400))
    return qs


SPECS['C13'] = dict(queries=c13, assumptions=COMMON_ASSUMPTIONS + [
    "element type E has constructors/destructor that maintain a ghost table of live objects (destroying a non-live, null or already destroyed object is an assertion failure); "
    "CountingAlloc<T> (rebound by the list to node and bookkeeping-record types) keeps a table of allocated blocks and asserts on deallocate of anything else",
    "sequential query: 3 (5) symbolic operations out of {take+touch+release a handle, push_back, erase first, two nested handles}, then the list is destroyed and both tables must be empty",
    "std::allocator variant: same element type, default allocator (operator delete(nullptr) is legal there; destroying a never-constructed E is not)"],
    outside=["more than 5 operations / 2 threads", "allocators with fancy pointers or state", "exceptions thrown by element constructors"])


# ------------------------------------------------------------------------------------------------ C14 (lr and rcu parts; cow part is added with C04)
def c14(tier):
    qs = []
    W, R1, R2 = ('W', 'vp_writer'), ('R1', 'vp_reader'), ('R2', 'vp_reader')
    d = ['ERASE_POS=-1', 'PUSH_BACK']
    lr_ro = dict(final='vp_final', cover=3, timeout=1200)
    if tier == 'quick':
        # reader runs alone after an arbitrary prefix that suspends the writer at an arbitrary visible step
        qs.append(mk('lr_reader_solo_after_R2', 'c03_lr.cpp', [W, R1, R2], 2, solo=[['R1']], defines=['NWRITES=2', 'NREADS=1'], **lr_ro))
        # converse: prefix, readers run to completion, then the writer alone completes
        qs.append(mk('lr_writer_solo_after_readers_R2', 'c03_lr.cpp', [W, R1, R2], 2, solo=[['R1', 'R2', 'W']], defines=['NWRITES=2', 'NREADS=1'], **lr_ro))
        qs.append(rq('rcu_reader_solo_after_writer_R2', 'AB', 2, order=(1, 0), defines=d, solo=[['A']]))
        qs.append(rq('rcu_writer_solo_after_reader_R2', 'AB', 2, order=(0, 1), defines=d, solo=[['A', 'B']]))
        qs.append(cowq('cow_reader_solo_after_writer_R2', 'WR', 2, order=(0, 1), defines=['WMODE=0', 'NSNAP=1'], solo=[['R']], timeout=1500))
    else:
        for o in orders(3, 'all'):
            s_ = ''.join(map(str, o))
            qs.append(mk('lr_reader_solo_after_R3_o' + s_, 'c03_lr.cpp', [W, R1, R2], 3, order=o, solo=[['R1']], defines=['NWRITES=2', 'NREADS=1'], final='vp_final', cover=3, timeout=3000))
            qs.append(rq('rcu_reader_solo_after_R2_o' + s_, 'ABC', 2, order=o, defines=d, solo=[['A']], timeout=3000))
        qs.append(mk('lr_writer_solo_after_readers_R3', 'c03_lr.cpp', [W, R1, R2], 3, solo=[['R1', 'R2', 'W']], defines=['NWRITES=2', 'NREADS=2'], final='vp_final', cover=3, timeout=3000))
        qs.append(rq('rcu_writer_solo_after_readers_R2', 'ABC', 2, order=(0, 2, 1), defines=d, solo=[['A', 'C', 'B']], timeout=3000))
        qs.append(cowq('cow_reader_solo_after_writer_R2', 'WR', 2, order=(0, 1), defines=['WMODE=0', 'NSNAP=1'], solo=[['R']], timeout=3400))
        qs.append(cowq('cow_writer_solo_after_reader_R2', 'WR', 2, order=(1, 0), defines=['WMODE=0', 'NSNAP=1'], solo=[['R', 'W']], timeout=3400))
    return qs


SPECS['C14'] = dict(queries=c14, assumptions=SPECS['C03']['assumptions'][:-1] + [
    "query shape: R rounds of arbitrary interleaving (this suspends every writer at an arbitrary visible step), then the thread under test is the only one scheduled, with "
    "an unlimited budget: it must run to completion; a blocking primitive whose condition is false, or a fair-spin yield that nobody can release, ends the run unfinished",
    "converse queries: after the prefix all readers run to completion and then the writer alone must complete (no deadlock / livelock between readers and writers)"],
    outside=["cow_guarded: one writer (commit) against one reader, lock_shared only (its try form forwards to the same lr_guarded path, decided in C04 thorough)", "more than 3 threads; prefixes longer than R rounds"])


# ------------------------------------------------------------------------------------------------ C19
def c19(tier):
    qs = []
    O, D, X = ('O', 'vp_owner'), ('D', 'vp_detector'), ('X', 'vp_other')
    kinds = {'explicit': 1, 'declared': 2, 'indexed': 3}
    # the two accessor functions that own the function-local statics run as one atomic step (their initialisation is serialised
    # by the ABI guard anyway); everything else (shared_ptr copies, the trip store, the detector load) interleaves freely
    o = {'yield_blocks': False, 'noinline': ['@_ZN4gmlc11concurrency8TripWire14getIndexedLineEj', '@_ZN4gmlc11concurrency8TripWire7getLineEv']}
    if tier == 'quick':
        # the owner's way of handling its trigger (0 destroy, 1 move-construct, 2 move-assign, 3 moved-from dies first) is enumerated
        for mv in range(4):
            qs.append(mk(f'trip_explicit_mv{mv}_owner_det_R3', 'c19_tripwire.cpp', [O, D], 3, final='vp_final', cover=3, defines=['LINEKIND=1', f'MV={mv}'],
                         opts=o, unwind=4, checks='pointer', must_cover=4, timeout=900))
        qs.append(mk('trip_declared_mv0_second_trigger_R3', 'c19_tripwire.cpp', [O, D], 3, final='vp_final', cover=3, defines=['LINEKIND=2', 'MV=0', 'SECOND_TRIGGER'],
                     opts=o, unwind=4, checks='pointer', must_cover=4, timeout=900))
        qs.append(mk('trip_declared_mv1_owner_det_R3', 'c19_tripwire.cpp', [O, D], 3, final='vp_final', cover=3, defines=['LINEKIND=2', 'MV=1'],
                     opts=o, unwind=4, checks='pointer', must_cover=4, timeout=900))
        qs.append(mk('trip_indexed_mv2_owner_det_R3', 'c19_tripwire.cpp', [O, D], 3, final='vp_final', cover=3, defines=['LINEKIND=3', 'MV=2'],
                     opts=o, unwind=4, checks='pointer', must_cover=4, timeout=900))
        qs.append(mk('trip_indexed_mv3_owner_other_R3', 'c19_tripwire.cpp', [O, X], 3, final='vp_final', cover=3, defines=['LINEKIND=3', 'MV=3'],
                     opts=o, unwind=4, checks='pointer', timeout=900))
        qs.append(mk('trip_explicit_mv2_owner_other_R3', 'c19_tripwire.cpp', [O, X], 3, final='vp_final', cover=3, defines=['LINEKIND=1', 'MV=2'],
                     opts=o, unwind=4, checks='pointer', timeout=900))
        qs.append(mk('trip_indexed_seq', 'c19_tripwire.cpp', [], 1, seq=['vp_seq'], cover=1, defines=['LINEKIND=3'], unwind=4, checks='pointer'))
        # publication clause under the happens-before monitor (same query as in C07)
        qs.append(mk('hb_trip_explicit_mv0_R3', 'c19_tripwire.cpp', [O, D], 3, final='vp_final', cover=3, defines=['LINEKIND=1', 'MV=0'],
                     opts=dict(o, hb=True), unwind=4, checks='pointer', must_cover=4, timeout=900))
    else:
        qs.append(mk('hb_trip_explicit_mv1_R3', 'c19_tripwire.cpp', [O, D], 3, final='vp_final', cover=3, defines=['LINEKIND=1', 'MV=1'],
                     opts=dict(o, hb=True), unwind=4, checks='pointer', must_cover=4, timeout=3000))
        for kn, k in kinds.items():
            for od in orders(3, 'all')[:3]:
                qs.append(mk(f'trip_{kn}_R3_o' + ''.join(map(str, od)), 'c19_tripwire.cpp', [O, D, X], 3, order=od, final='vp_final', cover=3,
                             defines=[f'LINEKIND={k}'], opts=o, unwind=4, checks='pointer', must_cover=4, timeout=3000))
            qs.append(mk(f'trip_{kn}_2det_R3', 'c19_tripwire.cpp', [O, D, ('D2', 'vp_detector')], 3, final='vp_final', cover=3, defines=[f'LINEKIND={k}', 'TWO_DET'],
                         opts=o, unwind=4, checks='pointer', timeout=3000))
            qs.append(mk(f'trip_{kn}_owner_det_R4', 'c19_tripwire.cpp', [O, D], 4, final='vp_final', cover=3, defines=[f'LINEKIND={k}'],
                         opts=o, unwind=4, checks='pointer', must_cover=4, timeout=3000))
        qs.append(mk('trip_indexed_seq', 'c19_tripwire.cpp', [], 1, seq=['vp_seq'], cover=1, defines=['LINEKIND=3'], unwind=4, checks='pointer'))
    return qs


SPECS['C19'] = dict(queries=c19, assumptions=COMMON_ASSUMPTIONS + [
    "the owner's handling of the trigger is a symbolic choice: destroy | move-construct then destroy both | move-assign over a trigger of the other line",
    "shared_ptr control blocks (make_shared) are real libstdc++ header code; their virtual dispose/destroy run atomically",
    "function-local statics (DECLARE_TRIPLINE / DECLARE_INDEXED_TRIPLINES) use a model of __cxa_guard_acquire/release that runs the initialiser once",
    "std::vector::at() out-of-range is modelled as a real throw of std::out_of_range (caught in the harness)",
    "publication ('everything written before ... is visible') is decided under sequential consistency here and under the happens-before monitor in C07"],
    outside=["more than one trigger per line alive at the same time", "more than 3 threads"])


# ------------------------------------------------------------------------------------------------ C20
WRAPS['lr_guarded'] = 7


def c20(tier):
    qs = []
    Wt, Rd, W2 = ('W', 'vp_writer'), ('R', 'vp_reader'), ('W2', 'vp_writer2')
    def tq(name, wrap, ops, rounds, **kw):
        threads = [(f'T{i + 1}', f'vp_t{i + 1}') for i in range(len(ops))]
        defines = [f'WRAP={WRAPS[wrap]}'] + [f"T{i + 1}_OPS=" + ','.join('OP_' + o for o in ol) for i, ol in enumerate(ops)]
        kw.setdefault('unwind', 3)
        return mk(name, 'c20_throw.cpp', threads, rounds, final='vp_final', cover=(1 << len(ops)) - 1, defines=defines,
                  opts={'yield_blocks': False}, **kw)
    lr = dict(final='vp_final', defines=['WRAP=7'], unwind=3, timeout=1500)
    if tier == 'quick':
        qs.append(mk('lr_throw_writer_reader_R3', 'c20_throw.cpp', [Wt, Rd], 3, cover=3, **lr))
        qs.append(mk('lr_throw_writer_writer2_R2', 'c20_throw.cpp', [Wt, W2], 2, cover=5, **lr))
        qs.append(tq('ordered_throw_modify_read', 'ordered_guarded', [['MODIFY', 'READ'], ['READ', 'MODIFY']], 3))
        qs.append(tq('guarded_throw_store_load', 'guarded', [['STORE', 'LOAD'], ['ASSIGN', 'LOAD']], 3))
        qs.append(tq('atomic_throw_xchg_cas', 'atomic_guarded', [['XCHG', 'LOAD'], ['CAS', 'STORE']], 3))
        qs.append(tq('atomic_throw_assign_ordered_store', 'atomic_guarded', [['ASSIGN', 'XCHG'], ['LOAD', 'CAS']], 3))
        qs.append(tq('ordered_throw_store_load', 'ordered_guarded', [['STORE', 'LOAD'], ['ASSIGN', 'MODIFY']], 3))
        qs.append(tq('ordered_throw_modifyv_readv', 'ordered_guarded', [['MODIFYV', 'READV'], ['READV', 'MODIFYV']], 3))
    else:
        qs.append(mk('lr_throw_writer_reader_R4', 'c20_throw.cpp', [Wt, Rd], 4, cover=3, **dict(lr, timeout=3000)))
        for od in orders(3, 'all'):
            qs.append(mk('lr_throw_w_r_w2_R3_o' + ''.join(map(str, od)), 'c20_throw.cpp', [Wt, Rd, W2], 3, order=od, cover=7, **dict(lr, timeout=3000)))
        qs.append(tq('ordered_throw_modify_read_R4', 'ordered_guarded', [['MODIFY', 'READ'], ['READ', 'MODIFY']], 4, timeout=3000))
        qs.append(tq('ordered_throw_store_load_R3', 'ordered_guarded', [['STORE', 'LOAD'], ['ASSIGN', 'MODIFY']], 3, timeout=3000))
        qs.append(tq('ordered_throw_modifyv_readv_R4', 'ordered_guarded', [['MODIFYV', 'READV'], ['READV', 'MODIFYV']], 4, timeout=3000))
        qs.append(tq('guarded_throw_store_load_R4', 'guarded', [['STORE', 'LOAD'], ['ASSIGN', 'LOAD']], 4, timeout=3000))
        qs.append(tq('atomic_throw_xchg_cas_R4', 'atomic_guarded', [['XCHG', 'LOAD'], ['CAS', 'STORE']], 4, timeout=3000))
        qs.append(tq('atomic_throw_cas_cas_R3', 'atomic_guarded', [['CAS', 'ASSIGN'], ['CAS', 'XCHG']], 3, timeout=3000))
        qs.append(cowq('cow_throwing_copy_reader_R2', 'WR', 2, defines=['WMODE=0', 'NSNAP=1', 'THROWING_COPY'], timeout=3400))
    return qs


SPECS['C20'] = dict(queries=c20, assumptions=COMMON_ASSUMPTIONS + [
    "exceptions are lowered from the IR: invoke/landingpad/resume and the __cxa_* runtime become an explicit pending-exception record; "
    "catch clauses match by typeinfo identity (plus the std exception hierarchy); an exception that leaves a thread entry function is an assertion failure",
    "the index of the throwing user-code invocation is symbolic in 0..4 (0 = nothing throws); user code = modify/read functors (entry and middle), "
    "payload copy constructor, assignment and operator==",
    "lr_guarded: plain payload copies (the documented requirement that roll-back copies do not throw); fair-spin yield as in C03"],
    outside=["cow_guarded / deferred_guarded / DelayedDestructor / SearchableObjectHolder clauses: decided in the C04 / C06 / C16 / C17 harnesses where claimed",
             "exceptions thrown by the roll-back copy itself", "more than 3 threads"])


# ------------------------------------------------------------------------------------------------ C04 (cow_guarded) + cow clauses of C14 / C20
def cowq(name, tl, rounds, defines=(), order=None, **kw):
    T = {'W': ('W', 'vp_writer'), 'V': ('V', 'vp_writer_b'), 'R': ('R', 'vp_reader'), 'S': ('S', 'vp_reader')}
    threads = [T[t] for t in tl]
    kw.setdefault('timeout', 1500)
    kw.setdefault('unwind', 3)
    return mk(name, 'c04_cow.cpp', threads, rounds, order=order, final='vp_final', cover=(1 << len(tl)) - 1, defines=list(defines),
              opts={'yield_blocks': True}, checks='pointer', **kw)


def c04(tier):
    qs = []
    if tier == 'quick':
        qs.append(cowq('cow_commit_reader_R2', 'WR', 2, defines=['WMODE=0', 'NSNAP=1']))
        qs.append(cowq('cow_cancel_commit_R2', 'WV', 2, defines=['WMODE=1', 'WMODE_B=0', 'NSNAP=1']))
        qs.append(cowq('cow_movecancel_commit_R2', 'WV', 2, defines=['WMODE=4', 'WMODE_B=0', 'NSNAP=1']))
    else:
        qs.append(cowq('cow_commit_tryshared_reader_R2', 'WR', 2, defines=['WMODE=0', 'NSNAP=1', 'USE_TRY_SHARED'], timeout=3400))
        qs.append(cowq('cow_commit_reader2_R3', 'WR', 3, defines=['WMODE=0', 'NSNAP=2'], timeout=3400))
        qs.append(cowq('cow_reader_commit_R2', 'WR', 2, order=(1, 0), defines=['WMODE=0', 'NSNAP=1'], timeout=3400))
        qs.append(cowq('cow_cancel_commit_R2', 'WV', 2, defines=['WMODE=1', 'WMODE_B=0', 'NSNAP=1'], timeout=3400))
        qs.append(cowq('cow_move_reader_R2', 'WR', 2, defines=['WMODE=2', 'NSNAP=1'], timeout=3400))
        qs.append(cowq('cow_commit_cancel_R2', 'WV', 2, defines=['WMODE=0', 'WMODE_B=1', 'NSNAP=1'], timeout=3400))
        qs.append(cowq('cow_move_commit_R2', 'WV', 2, defines=['WMODE=2', 'WMODE_B=0', 'NSNAP=1'], timeout=3400))
        qs.append(cowq('cow_movecancel_commit_R2', 'WV', 2, defines=['WMODE=4', 'WMODE_B=0', 'NSNAP=1'], timeout=3400))
        qs.append(cowq('cow_movecancel_reader_R2', 'WR', 2, defines=['WMODE=4', 'NSNAP=1'], timeout=3400))
        for od in orders(3, 'all'):
            qs.append(cowq('cow_w_w_r_R2_o' + ''.join(map(str, od)), 'WVR', 2, order=od, defines=['WMODE=0', 'NSNAP=1'], timeout=3400))
        qs.append(cowq('cow_cancel_reader_R3', 'WR', 3, defines=['WMODE=1', 'NSNAP=1'], timeout=3400))
    return qs


SPECS['C04'] = dict(queries=c04, assumptions=COMMON_ASSUMPTIONS + [
    "std::shared_ptr / make_shared / control blocks are real libstdc++ header code in the formula (libstdc++'s single-threaded fast paths are folded away: "
    "__libc_single_threaded is the constant 0); the virtual _M_dispose/_M_destroy run atomically; use-after-free of a snapshot or control block is a cbmc pointer-check failure",
    "each writer reads the committed value under its handle and asserts that it equals the number of commits so far (ghost), inside an exclusive access window",
    "try_lock / try_lock_for / try_lock_until of cow_guarded are not instantiated: they do not compile in the unchanged library (handle() is ill-formed)"],
    outside=["more than 2 writers + 1 reader, more than 2 snapshots per reader", "R >= 3 with three threads"])


# ------------------------------------------------------------------------------------------------ C07 (happens-before / memory orders)
def c07(tier):
    qs = []
    W, R1, R2 = ('W', 'vp_writer'), ('R1', 'vp_reader'), ('R2', 'vp_reader')
    hb = {'hb': True, 'yield_blocks': True}
    hbn = {'hb': True, 'yield_blocks': False}
    if tier == 'quick':
        qs.append(mk('hb_lr_w1_r1_R3', 'c03_lr.cpp', [W, R1], 3, final='vp_final', cover=3, defines=['NWRITES=1', 'NREADS=1'], opts=hb, timeout=1500))
        qs.append(mk('hb_trip_explicit_mv0_R3', 'c19_tripwire.cpp', [('O', 'vp_owner'), ('D', 'vp_detector')], 3, final='vp_final', cover=3,
                     defines=['LINEKIND=1', 'MV=0'], opts=hbn, unwind=4, checks='pointer', must_cover=4, timeout=900))
        qs.append(mk('hb_latch_w_a2_R4', 'c10_latch.cpp', [('W', 'vp_waiter'), ('A', 'vp_arriver')], 4, cover=3, defines=['NARRIVE=2', 'HB_DATA'],
                     opts=dict(hbn, spur=1), unwind=4, timeout=900))
    else:
        qs.append(mk('hb_lr_w2_r1_R3', 'c03_lr.cpp', [W, R1], 3, final='vp_final', cover=3, defines=['NWRITES=2', 'NREADS=1'], opts=hb, timeout=3400))
        qs.append(mk('hb_lr_w1_r1_R3', 'c03_lr.cpp', [W, R1], 3, final='vp_final', cover=3, defines=['NWRITES=1', 'NREADS=1'], opts=hb, timeout=3000))
        qs.append(mk('hb_lr_w1_r1_R4', 'c03_lr.cpp', [W, R1], 4, final='vp_final', cover=3, defines=['NWRITES=1', 'NREADS=1'], opts=hb, timeout=3400))
        # (MV=2, move-assignment, at R=4 did not finish in 3000 s [measured]: decided at R=3)
        for mv, R in ((0, 4), (1, 4), (2, 3)):
            qs.append(mk(f'hb_trip_explicit_mv{mv}_R{R}', 'c19_tripwire.cpp', [('O', 'vp_owner'), ('D', 'vp_detector')], R, final='vp_final', cover=3,
                         defines=['LINEKIND=1', f'MV={mv}'], opts=hbn, unwind=4, checks='pointer', must_cover=4, timeout=3000))
        qs.append(mk('hb_latch_w_a1_aw_R3', 'c10_latch.cpp', [('W', 'vp_waiter'), ('A', 'vp_arriver'), ('AW', 'vp_arrive_wait')], 3, cover=7,
                     defines=['NARRIVE=1', 'HB_DATA', 'TOTAL_ARRIVALS=2'], opts=dict(hbn, spur=1), unwind=4, timeout=3000))
    return qs


SPECS['C07'] = dict(queries=c07, assumptions=COMMON_ASSUMPTIONS + [
    "happens-before monitor (engine/vphb.h): vector clocks per thread; synchronises-with edges from pthread mutex/rwlock and from atomics according to the memory order "
    "written in the IR (release sequences continued by RMWs and by later stores of the same thread); every non-atomic access to shared memory must be ordered after the "
    "previous conflicting access, otherwise 'data race' is reported",
    "loads weaker than seq_cst may return the previous value of their location when the latest store is not ordered before them by happens-before (one-deep history, "
    "coherence respected): exposes protocols that rely on seq_cst store->load ordering",
    "this is NOT the full C++11 model: executions are SC interleavings plus the stale reads above; load buffering, consume, fences, mixed-size accesses are outside"],
    outside=["rcu_list / cow_guarded / deferred_guarded protocols under the monitor (shadow tables too small for their heap; named here rather than silently skipped)",
             "non-SC behaviours that need more than a one-deep store history", "std::atomic_thread_fence"])


# ------------------------------------------------------------------------------------------------ C06 (deferred_guarded)
STUB = ['-I', '/verif/harness/stubstd']


def c06(tier):
    qs = []
    EU = ','.join(f'vp_eptr_note_.{k}:6' for k in (0,)) + ',vp_rethrow_exception.0:6'
    def dq(name, threads, rounds, defines, order=None, **kw):
        kw.setdefault('timeout', 1500)
        kw.setdefault('unwind', 4)
        return mk(name, 'c06_deferred.cpp', threads, rounds, order=order, final='vp_final', cover=kw.pop('cover'), defines=defines,
                  opts={'yield_blocks': False}, checks='pointer', cflags=STUB, unwindset=EU, **kw)
    S1, S2, Rd = ('S1', 'vp_sub1'), ('S2', 'vp_sub2'), ('R', 'vp_reader')
    seq = dict(cflags=STUB, unwind=4, unwindset=EU, checks='pointer', timeout=1500)
    if tier == 'quick':
        # one thread; the queued path is forced by holding a shared handle: exercises enqueue, pending flag, drain order, futures
        qs.append(mk('deferred_seq_queue_drain', 'c06_deferred.cpp', [], 1, seq=['vp_seq1'], final='vp_final', cover=1, defines=['EXPECT=3'], **seq))
        qs.append(mk('deferred_seq_direct_then_queue', 'c06_deferred.cpp', [], 1, seq=['vp_seq2'], final='vp_final', cover=1, defines=['EXPECT=2'], **seq))
    else:
        qs.append(mk('deferred_seq_queue_drain', 'c06_deferred.cpp', [], 1, seq=['vp_seq1'], final='vp_final', cover=1, defines=['EXPECT=3'], **seq))
        qs.append(mk('deferred_seq_direct_then_queue', 'c06_deferred.cpp', [], 1, seq=['vp_seq2'], final='vp_final', cover=1, defines=['EXPECT=2'], **seq))
        # two threads, two rounds; container / packaged_task plumbing runs atomically (noinline), the protocol itself interleaves
        NI = ['@_ZNSt6vectorISt10unique_ptr*', '@_ZNSt7promiseIvE7abandonEv', '@_ZNSt7promiseIiE7abandonEv', '@_ZN4gmlc10libguarded11void_runner*',
              '@_ZN4gmlc10libguarded11type_runner*', '@_ZNSt13packaged_task*', '@_ZNSt12_Vector_base*']
        def cq(name, threads, defines, order, cover):
            return mk(name, 'c06_deferred.cpp', threads, 2, order=order, final='vp_final', cover=cover, defines=defines,
                      opts={'yield_blocks': False, 'noinline': NI}, cflags=STUB, unwindset=EU, unwind=4, timeout=3400, solvers=('minisat', 'kissat'),
                      object_bits=12)
        qs.append(cq('deferred_detach_reader_R2', [S1, Rd], ['NSUB1=1', 'NSUB2=0', 'KIND1=0'], (0, 1), 5))
        qs.append(cq('deferred_reader_detach_R2', [S1, Rd], ['NSUB1=1', 'NSUB2=0', 'KIND1=0'], (1, 0), 5))
        qs.append(cq('deferred_detach_detach_R2', [S1, S2], ['NSUB1=1', 'NSUB2=1', 'KIND1=0', 'KIND2=0'], (0, 1), 3))
        # a reader that releases and re-acquires (second acquisition drains) against a submitter whose first call is queued and second is direct
        qs.append(cq('deferred_reader2_detach2_R2', [S1, Rd], ['NSUB1=2', 'NSUB2=0', 'KIND1=0', 'KIND1B=0', 'READER_TRY'], (1, 0), 5))
        # modify_async on the direct path after a queued modify_detach of the same thread, against a reader releasing its handle at any point (order clause)
        qs.append(cq('deferred_reader_detach_async_R2', [S1, Rd], ['NSUB1=2', 'NSUB2=0', 'KIND1=0'], (1, 0), 5))
    return qs


SPECS['C06'] = dict(queries=c06, assumptions=COMMON_ASSUMPTIONS + [
    "<future> is the harness-local replacement harness/stubstd/future (promise/future/packaged_task over mutex + condition_variable, documented contract); "
    "the real libstdc++ <future> keeps its state behind libstdc++.so entry points for which no IR exists",
    "quick tier: single-thread scenarios in which the queued path is forced by a shared handle held by the same thread (enqueue, pending flag, drain order, "
    "exclusivity of the drain, futures); interleavings of submitters, readers and drainers are decided only in the thorough tier: two threads, two rounds, with the vector / packaged_task / promise plumbing run atomically (noinline) and symbolic-size allocations replaced by 64-byte blocks (without both, cbmc's propositional reduction ran out of memory) - about 15 min per query",
    "virtual run_task / packaged_task invocation run atomically (indirect calls); std::try_to_lock never fails spuriously"],
    outside=["quick tier: every genuinely concurrent schedule (seeded change C06-s1 - a drainer that cleared the pending flag but has not taken the lock yet while a direct-path submitter runs - is caught only by the thorough query deferred_reader2_detach2_R2)",
             "three or more threads, more than two rounds, two readers against two submitters",
             "exceptions thrown by queued functors"])


# ------------------------------------------------------------------------------------------------ C16
def c16(tier):
    qs = []
    A, D, O2 = ('A', 'vp_adder'), ('D', 'vp_destroyer'), ('O', 'vp_owner2')
    # container plumbing (vector growth / erase / remove_if / find, std::function copies) runs atomically: it is executed either under
    # destructionLock or on vectors local to destroyObjects; shared_ptr reference counts, the timed mutex and the user callbacks interleave
    NI = ['@_ZNSt6vectorISt10shared_ptr*', '@_ZNSt6vectorIPv*', '@_ZNSt12_Vector_base*', '@_ZSt9__find_if*', '@_ZSt11__remove_if*', '@_ZSt8__find_if*',
          '@_ZNSt8functionIF*', '@_ZNSt14_Function_base*']
    def dq(name, threads, rounds, defines, order=None, **kw):
        kw.setdefault('timeout', 1500)
        kw.setdefault('unwind', 4)
        return mk(name, 'c16_delayed.cpp', threads, rounds, order=order, final='vp_final', cover=(1 << len(threads)) - 1, defines=defines,
                  opts={'yield_blocks': False, 'noinline': NI}, object_bits=12, **kw)
    big = dict(unwind=3, solvers=('kissat',), mem_gb=40, timeout=3400, est_gb=20)
    seq = dict(unwind=4, checks='pointer', timeout=2400, object_bits=12, mem_gb=40, est_gb=7, solvers=('kissat',))
    def sq(name, defines):
        return mk(name, 'c16_delayed.cpp', [], 1, seq=['vp_seq'], final='vp_final', cover=1, defines=defines, opts={'noinline': NI}, **seq)
    if tier == 'quick':
        # the quick tier has 900 s per property: the lightest concurrent shape (no size() call, accounting-only final, at most one element)
        qs.append(dq('dd_adder_destroyer_light_R2', [A, D], 2, ['LIGHT'], **dict(big, unwind=2, timeout=800, est_gb=7)))
        qs.append(sq('dd_seq_single_cb', ['SINGLE', 'WITH_CALLBACK', 'REENTER', 'DROP2']))
        qs.append(sq('dd_seq_locked_cb', ['WITH_CALLBACK', 'REENTER', 'DROP1_EARLY']))
    else:
        qs.append(dq('dd_adder_destroyer_light_R2', [A, D], 2, ['LIGHT'], **dict(big, unwind=2, est_gb=7)))
        qs.append(dq('dd_adder_destroyer_R2', [A, D], 2, [], **big))
        qs.append(dq('dd_adder_destroyer_preload_reenter_R2', [A, D], 2, ['PRELOAD2', 'REENTER'], **big))
        qs.append(dq('dd_adder_destroyer_preload_cb_reenter_R2', [A, D], 2, ['PRELOAD2', 'REENTER', 'WITH_CALLBACK'], **big))
        # (both threads calling destroyObjects, PRELOAD2 + ADDER_DESTROYS: kissat exceeded the 40 GB address-space cap after 55 min [measured]; not registered)
        qs.append(sq('dd_seq_single_cb', ['SINGLE', 'WITH_CALLBACK', 'REENTER', 'DROP2']))
        qs.append(sq('dd_seq_locked_cb', ['WITH_CALLBACK', 'REENTER', 'DROP1_EARLY']))
        # the container's own destructor reaps what is left (retry loop), after a fixed add / drop / destroy sequence
        qs.append(sq('dd_seq_locked_delete_d10', ['WITH_CALLBACK', 'REENTER', 'DROP1_EARLY', 'FINAL_DELETE']))
        qs.append(sq('dd_seq_single_delete_d01', ['SINGLE', 'WITH_CALLBACK', 'REENTER', 'DROP2', 'FINAL_DELETE']))
    return qs


C16_SPEC = dict(queries=c16, assumptions=COMMON_ASSUMPTIONS + [
    "program shapes are fixed per query by macros (which objects are pre-loaded, who drops which external reference, callback / re-entrant destructor on or off); "
    "symbolic are the schedule (where adder, external owner and destroyer are pre-empted, 2 threads x 2 contexts) and which try_lock_for times out",
    "element type X counts its destructions per object (exactly once, 1604), checks that no external owner is left (1600), that the container's timed mutex is not held by the "
    "destroying thread (1601), that the callback ran once before (1605/1606/1607, outside the lock 1603) and, with REENTER, calls size() on the same container from the "
    "destructor and from the callback (a destructor under the lock then self-deadlocks on the modelled non-recursive mutex)",
    "container plumbing (std::vector growth / erase / remove_if / find, std::function copy and call) runs atomically (noinline): it executes under destructionLock or on vectors "
    "local to destroyObjects; shared_ptr reference counts, the timed mutex, user destructors and callbacks interleave; an atomic section that would have to wait for a lock "
    "held by another thread is not explored from that point (it is reported only when the lock is held by the calling thread itself)",
    "sequential queries (dd_seq_*): both classes, add / drop / destroyObjects / callback / re-entrance for fixed drop patterns - these are single executions pushed through the "
    "same encoding (the solver has no free input there); they are listed because they are the only runs of DelayedDestructorSingleThread",
    "formula size: 13-16 M variables, 57-72 M clauses per full concurrent query (cbmc 10-14 GB + kissat 6-8 GB, 12-25 min each, thorough tier; the memory governor of vcheck.py runs at most two at once); the quick tier (900 s per property) runs the lightest concurrent shape - adder || destroyer without the size() call, accounting-only final step, at most one element, unwind 2 (about 5 min, 4.4 GB) - plus the two sequential runs"],
    outside=["more than 2 threads / 2 contexts per thread / 2 objects", "destroyObjects(delay) overload and the retry loop of ~DelayedDestructor racing with an owner that drops its reference "
             "meanwhile (the destructor is run after all threads finished, in the thorough tier)", "TripWire short-circuit (ENABLE_TRIPWIRE off)", "exceptions thrown by destructors / callbacks"])
SPECS['C16'] = C16_SPEC


# ------------------------------------------------------------------------------------------------ C18 (experimental)
def c18(tier):
    qs = []
    S, F, C = ('S', 'vp_setter'), ('F', 'vp_fulfiller'), ('C', 'vp_consumer')
    NI = ['@_ZNSt8_Rb_tree*', '@_ZNSt3mapI*', '@_ZNSt7promiseIiE*', '@_ZNSt6futureIiE*', '@_ZNSt14__basic_futureIiE*', '@_ZNSt13__future_base*', '@_ZNSt12__shared_ptr*', '@_ZNSt10shared_ptr*']
    def dq(name, threads, rounds, defines, order=None, **kw):
        kw.setdefault('timeout', 3400)
        kw.setdefault('unwind', 4)
        return mk(name, 'c18_delayedobj.cpp', threads, rounds, order=order, setup='vp_setup2', final='vp_final2', cover=sum(1 << {'S': 1, 'F': 2, 'C': 0}[t[0]] for t in threads), defines=defines,
                  opts={'yield_blocks': False, 'noinline': NI}, object_bits=12, cflags=STUB, solvers=('kissat',), mem_gb=12, est_gb=12, **kw)
    qs.append(dq('do_setter_fulfiller_R2', [S, F], 2, []))
    return qs


if os.environ.get('VP_EXPERIMENTAL'):
    SPECS['C18'] = dict(queries=c18, assumptions=COMMON_ASSUMPTIONS, outside=[])


# ------------------------------------------------------------------------------------------------ not claimed
NOT_APPLICABLE = {
    'C17': "SearchableObjectHolder: every operation goes through std::map<std::string, ...> (red-black-tree routines in libstdc++.so are modelled, but symbolic-content "
           "std::string construction/comparison plus vector<Y> copies per entry are beyond the encoding: C16, with only a vector of shared_ptr, already costs 13-16 M SAT variables and 12-26 min per two-thread query, and C18's maps did not get through symbolic execution). Defect D3 (use of the erased node's key in "
           "removeObject(predicate)) was found by reading, confirmed with ASan and repaired in /repo (fix: 5c115ee); no solver check decides C17.",
    'C18': "DelayedObjects: std::map<int/string, std::promise<X>> with symbolic keys/operation sequences did not finish symbolic execution in 10 min (two symbolic "
           "operations) [measured]; <future> itself had to be replaced by a stub (its state lives behind libstdc++.so entry points). A harness and the tree/future models "
           "exist (harness/c18_delayedobj.cpp, engine/vpmodels.h) but produce no verdict inside any budget tried: the last attempt - fixed program (setDelayedValue || "
           "fulfillAllPromises, 2 threads x 2 contexts), map / promise / shared-state plumbing run atomically, the recipe that made C06 and C16 decidable - was still in cbmc's "
           "symbolic execution when its 50 min cap expired [measured]. The property is not claimed.",
}


# rcu publication under the happens-before monitor (part of C07): a traversing reader against one pushing writer
def _c07_rcu(tier):
    o = {'hb': True, 'yield_blocks': False}
    big = ['-DVP_HB_K=20', '-DVP_HB_M=14']
    return [rq('hb_rcu_reader_pusher_R2', 'AD', 2, defines=['NINIT=1'], opts_override=o, extra_flags=big, timeout=1500 if tier == 'quick' else 3000)]
