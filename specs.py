#!/usr/bin/env python3
"""Per-property query lists (what is encoded, with which bounds). See DESIGN.md section 7."""
import itertools
from vcheck import Query

COMMON_ASSUMPTIONS = [
    "sequentially consistent interleaving semantics at the granularity of LLVM IR memory instructions (clang++-14 -O1 output), "
    "except where the happens-before monitor is switched on (C07/C19)",
    "operator new never fails; pthread primitives never return error codes other than EBUSY/ETIMEDOUT",
    "weak compare-exchange never fails spuriously",
    "time is abstracted: timed operations have an always-enabled time-out transition; the clock is an arbitrary non-decreasing value",
    "indirect calls (virtual functions, std::function, shared_ptr control blocks) execute atomically",
    "bounded: threads, operations per thread, rounds (contexts per thread), loop unwinding as listed per query; "
    "--unwinding-assertions is on for every verify run",
    "trusted base: clang++-14 front end and -O1 pipeline, engine/ir2c.py, engine/vpmodels.h, cbmc 6.11, the SAT back end",
]


def orders(n, which):
    perms = list(itertools.permutations(range(n)))
    if which == 'all': return perms
    if which == 'first': return perms[:1]
    return [tuple(p) for p in which]


def mk(name, cpp, threads, rounds, order=None, **kw):
    q = dict(setup=kw.pop('setup', 'vp_setup'), threads=threads, rounds=rounds, order=list(order) if order else list(range(len(threads))))
    for k in ('final', 'cover', 'solo', 'opts', 'maxb', 'seq'):
        if k in kw: q[k] = kw.pop(k)
    return Query(name, cpp, q, **kw)


# ------------------------------------------------------------------------------------------------ C03
def c03(tier):
    qs = []
    W, R1, R2 = ('W', 'vp_writer'), ('R1', 'vp_reader'), ('R2', 'vp_reader')
    if tier == 'quick':
        qs.append(mk('lr_w2_r1_r1_R3', 'c03_lr.cpp', [W, R1, R2], 3, final='vp_final', cover=3, defines=['NWRITES=2', 'NREADS=1'], timeout=900))
        qs.append(mk('lr_w2_r2_R3_try', 'c03_lr.cpp', [W, R1], 3, final='vp_final', cover=3, defines=['NWRITES=2', 'NREADS=2', 'READ_TRY'], timeout=900))
    else:
        for o in orders(3, 'all'):
            qs.append(mk('lr_w2_r1_r1_R4_o' + ''.join(map(str, o)), 'c03_lr.cpp', [W, R1, R2], 4, order=o, final='vp_final', cover=3,
                         defines=['NWRITES=2', 'NREADS=1'], timeout=2400))
        qs.append(mk('lr_w2_r2_r2_R3', 'c03_lr.cpp', [W, R1, R2], 3, final='vp_final', cover=3, defines=['NWRITES=2', 'NREADS=2'], timeout=2400))
        qs.append(mk('lr_w1_w1_r2_R3', 'c03_lr.cpp', [('W1', 'vp_writer'), ('W2', 'vp_writer'), R1], 3, final='vp_final', cover=3,
                     defines=['NWRITES=1', 'NREADS=2'], timeout=2400))
    return qs


SPECS = {
    'C03': dict(queries=c03, assumptions=COMMON_ASSUMPTIONS + [
        "sched_yield() inside the two drain loops is a fair-spin blocking point: the writer is rescheduled only after some shared location changed",
        "payload type {int a; int b;}; functor increments both fields; the try_lock_shared forms are covered by the READ_TRY query (they forward to lock_shared)"],
        outside=["more than 2 writers / 2 readers / 2 operations each", "schedules needing more contexts per thread than 'rounds'",
                 "behaviours that only weaker-than-SC hardware/compilers exhibit (see C07 for the happens-before part)"]),
}
