#!/bin/bash
# like runall.sh but writes evidence to evidence_dev (development validation of tiers)
tier=${1:-quick}; shift
cd /verif
for p in "$@"; do
  s=$(date +%s)
  out=$(VP_DEV=1 python3 vcheck.py $p --tier $tier 2>&1); rc=$?
  e=$(date +%s)
  echo "$p rc=$rc $((e-s))s :: $(echo "$out" | tail -1)"
  if [ $rc -ne 0 ]; then echo "$out" | grep -E "VIOLATION|BROKEN|query=" | head -10; fi
done
