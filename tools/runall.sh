#!/bin/bash
# runall.sh <tier> [ids...]: run the registered checks one after another, print a summary line each
tier=${1:-quick}; shift
ids=${@:-$(python3 -c "import sys; sys.path.insert(0,'/verif'); sys.path.insert(0,'/verif/engine'); import specs; print(' '.join(sorted(specs.SPECS)))")}
cd /verif
for p in $ids; do
  s=$(date +%s)
  out=$(python3 vcheck.py $p --tier $tier 2>&1); rc=$?
  e=$(date +%s)
  echo "$p rc=$rc $((e-s))s :: $(echo "$out" | tail -1)"
  if [ $rc -ne 0 ]; then echo "$out" | grep -E "VIOLATION|BROKEN|query=" | head -10; fi
done
