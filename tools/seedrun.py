#!/usr/bin/env python3
"""seedrun.py <seed-id> <tier> <property> [property...]: apply /verif/seeded/<id>/patch.diff to /repo, run the checks, undo it.
Records which checks catch the change in seeded/<id>/meta.json (development tool; never run by the registered commands)."""
import sys, subprocess, os, json, time, re
sid, tier, props = sys.argv[1], sys.argv[2], sys.argv[3:]
d = f'/verif/seeded/{sid}'
# mutations are applied to a scratch worktree (VERIF_REPO), never to /repo itself, so that checks of the real tree can run meanwhile
WT = os.environ.get('VP_SEED_WT', '/tmp/wt_seed')
if not os.path.isdir(WT):
    subprocess.run(['git', '-C', '/repo', 'worktree', 'add', '-q', '--detach', WT, 'HEAD'], check=True)
subprocess.run(['git', '-C', WT, 'checkout', '-q', '--detach', subprocess.run(['git', '-C', '/repo', 'rev-parse', 'HEAD'], capture_output=True, text=True).stdout.strip()], check=True)
subprocess.run(['git', '-c', 'submodule.recurse=false', '-C', WT, 'checkout', '--', 'gmlc', 'tests'], check=True)
subprocess.run(['git', '-C', WT, 'apply', f'{d}/patch.diff'], check=True)
res = {}
try:
    for p in props:
        t0 = time.time()
        r = subprocess.run(['python3', '/verif/vcheck.py', p, '--tier', tier], capture_output=True, text=True, env=dict(os.environ, VP_DEV='1', VERIF_REPO=WT))
        viol = re.findall(r'query=(\S+): (.*)', r.stdout)
        rr = re.findall(r'real code \([^)]*\): (REPRODUCED|not reproduced|unavailable)', r.stdout)
        res[p] = dict(exit=r.returncode, seconds=round(time.time() - t0), violations=[f"{q} {t[:120]}" for q, t in viol][:8], summary=r.stdout.strip().split('\n')[-1],
                      real_code_replay=dict(reproduced=rr.count('REPRODUCED'), not_reproduced=rr.count('not reproduced'), unavailable=rr.count('unavailable')))
        print(sid, p, tier, 'exit', r.returncode, res[p]['summary'], 'real-replay', res[p]['real_code_replay']); [print('   ', v) for v in res[p]['violations'][:4]]
finally:
    subprocess.run(['git', '-c', 'submodule.recurse=false', '-C', WT, 'checkout', '--', 'gmlc', 'tests'], check=True)
mp = f'{d}/meta.json'
m = json.load(open(mp)) if os.path.exists(mp) else {}
m.setdefault('checks_run', {})[tier] = res
m['detected'] = any(v['exit'] == 1 for t in m['checks_run'].values() for v in t.values())
json.dump(m, open(mp, 'w'), indent=1)
