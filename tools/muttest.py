#!/usr/bin/env python3
"""muttest.py <property> <file-relative-to-repo> <old-text> <new-text> [--tier quick]
Apply a textual mutation to /repo, run the property's check, restore /repo. Development helper only."""
import sys, subprocess, os
pid, rel, old, new = sys.argv[1:5]
tier = sys.argv[6] if len(sys.argv) > 6 else 'quick'
extra = sys.argv[7:]
WT = os.environ.get('VP_SEED_WT', '/tmp/wt_mut')
if not os.path.isdir(WT):
    subprocess.run(['git', '-C', '/repo', 'worktree', 'add', '-q', '--detach', WT, 'HEAD'], check=True)
subprocess.run(['git', '-C', WT, 'checkout', '-q', '--detach', subprocess.run(['git', '-C', '/repo', 'rev-parse', 'HEAD'], capture_output=True, text=True).stdout.strip()], check=True)
subprocess.run(['git', '-c', 'submodule.recurse=false', '-C', WT, 'checkout', '--', 'gmlc', 'tests'], check=True)
p = os.path.join(WT, rel)
s = open(p).read()
assert old in s, "pattern not found"
open(p, 'w').write(s.replace(old, new, 1))
try:
    r = subprocess.run(['python3', '/verif/vcheck.py', pid, '--tier', tier] + extra, stdout=subprocess.PIPE, stderr=subprocess.STDOUT, text=True, env=dict(os.environ, VP_DEV='1', VERIF_REPO=WT))
    print(r.stdout[-3000:]); print("exit", r.returncode)
finally:
    subprocess.run(['git', '-c', 'submodule.recurse=false', '-C', WT, 'checkout', '--', 'gmlc', 'tests'])
