#!/usr/bin/env python3
"""Regenerate /verif/MANIFEST.json from specs.SPECS (claimed properties) and specs.NOT_APPLICABLE."""
import json, os, sys
ROOT = os.path.dirname(os.path.dirname(os.path.abspath(__file__)))
sys.path.insert(0, ROOT); sys.path.insert(0, os.path.join(ROOT, 'engine'))
import specs
props = [json.loads(l) for l in open(os.path.join(ROOT, 'properties.jsonl'))]
checks = []
for p in props:
    pid = p['id']
    if pid not in specs.SPECS: continue
    sp = specs.SPECS[pid]
    checks.append(dict(
        property_id=pid,
        quick_cmd=f"python3 vcheck.py {pid} --tier quick",
        thorough_cmd=f"python3 vcheck.py {pid} --tier thorough",
        evidence_file=f"/verif/evidence/{pid}.json",
        replay_cmd_template=f"python3 vcheck.py {pid} --replay {{path}}",
        engine="ir2c+cbmc",
        level_claimed=dict(category="model_checking",
                           text=sp.get('level_text') or ("Bounded symbolic model checking of the real code: the harness and /repo's headers are compiled to LLVM IR on every run, "
                                 "translated to C step machines whose schedule, inputs and time-outs are symbolic, and cbmc + a SAT solver decide every query for all schedules "
                                 "inside the stated bounds (unwinding assertions on); each query has a reachability witness."),
                           design_ref=f"DESIGN.md section 7 ({pid})"),
        level_note="; ".join(sp.get('assumptions', [])[-3:]) + " | outside the bounds: " + "; ".join(sp.get('outside', [])),
        technique="LLVM IR -> C sequentialisation -> cbmc 6.11 bounded symbolic execution + SAT (kissat/minisat/cadical)"))
na = [dict(property_id=k, reason=v) for k, v in getattr(specs, 'NOT_APPLICABLE', {}).items()]
for p in props:
    if p['id'] not in specs.SPECS and p['id'] not in getattr(specs, 'NOT_APPLICABLE', {}):
        na.append(dict(property_id=p['id'], reason="not claimed yet: harness under construction in this session (see DESIGN.md section 11 build order)"))
M = dict(version=1,
         setup_cmd="python3 -m py_compile vcheck.py specs.py engine/ir2c.py engine/irparse.py engine/irxform.py engine/iremit.py && cbmc --version && kissat --version && clang++-14 --version",
         hooks=dict(guard="GMLC_TDC_CONCURRENCY_VERIF",
                    enable="no source hooks are needed: checks compile /repo's unmodified headers with clang++-14 -O1 -emit-llvm together with /verif/harness/*.cpp",
                    baseline_off_cmd="cmake --build /repo/_build && ctest --test-dir /repo/_build -j8 --timeout 900",
                    source_commits=[], add_only=True),
         engines=[dict(name="ir2c+cbmc", path="/verif/engine", serves_properties=[c['property_id'] for c in checks],
                       kind_free_text="own LLVM-IR -> C translator (sequentialised step machines, environment models below the pthread/libstdc++.so ABI) + cbmc 6.11 + SAT")],
         checks=checks, not_applicable=na,
         notes="fix commits in /repo: see known_findings.txt. Exit codes of the checks: 0 held, 1 violation (VIOLATION line), 2 the check itself is broken (never success).")
json.dump(M, open(os.path.join(ROOT, 'MANIFEST.json'), 'w'), indent=1)
print(len(checks), "checks;", len(na), "not applicable")
