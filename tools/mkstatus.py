#!/usr/bin/env python3
"""mkstatus.py: print a markdown table (property, tier, queries, verified, wall seconds, solver seconds, max RSS) from evidence files.
usage: mkstatus.py [evidence-dir ...]   (default: /verif/evidence)   - development aid for DESIGN.md section 6"""
import json, sys, glob, os
dirs = sys.argv[1:] or ['/verif/evidence']
print('| property | tier | queries | verified | wall s | solver s (sum) | max RSS MB | longest query |')
print('|---|---|---|---|---|---|---|---|')
for d in dirs:
    for f in sorted(glob.glob(os.path.join(d, 'C*.json'))):
        e = json.load(open(f)); c = e['coverage']; qs = c.get('queries', [])
        rss = max([r.get('rss_mb') or 0 for q in qs for r in q['runs']] or [0])
        def qsec(q): return max([r.get('seconds') or 0 for r in q['runs'] if r['status'] in ('success', 'failure')] or [0])
        lq = max(qs, key=qsec) if qs else None
        print(f"| {e['property_id']} | {e['tier']} | {len(qs)} | {c.get('queries_verified')} | {round(e.get('wall_s') or 0)} | {round(c.get('solver_seconds') or 0)} | {rss} | "
              f"{lq['name'] + ' ' + str(round(qsec(lq))) + ' s' if lq else ''} |")
