#!/bin/bash
# confirm_seed.sh <seed-src-dir> <worktree> <seed-id> <property> [demo extra flags]
# Confirms a seeded change independently: applies cleanly, suite passes with it, demo fails with it and passes without it.
src=$1; wt=$2; id=$3; prop=$4; shift 4; extra="$@"
out=/verif/seeded/$id; mkdir -p $out
cp $src/patch.diff $out/patch.diff; cp $src/demo.cpp $out/demo.cpp; cp $src/notes.txt $out/notes_from_author.txt 2>/dev/null
git -C $wt checkout -q -- gmlc tests 2>/dev/null
res_apply=fail; res_suite=fail; demo_with=""; demo_without=""
# demo without the change
g++ -std=c++17 -O1 -g $extra -pthread -I$wt $out/demo.cpp -o /tmp/demo_$id.base 2>/tmp/demo_$id.log || echo "demo compile failed (base)" >> /tmp/demo_$id.log
for i in 1 2 3; do timeout 120 /tmp/demo_$id.base >/dev/null 2>&1; demo_without="$demo_without $?"; done
if git -C $wt apply --check $out/patch.diff 2>/dev/null; then
  git -C $wt apply $out/patch.diff; res_apply=ok
  cmake -G Ninja -S $wt -B $wt/_build -DCMAKE_BUILD_TYPE=RelWithDebInfo -DGMLC_CONCURRENCY_ENABLE_SUBMODULE_UPDATE=OFF >/dev/null 2>&1
  if cmake --build $wt/_build >/tmp/build_$id.log 2>&1; then
    ok=1
    for i in 1 2; do ctest --test-dir $wt/_build -j8 --timeout 900 >/tmp/ctest_$id.log 2>&1 || ok=0; done
    [ $ok = 1 ] && res_suite=pass
  else res_suite=buildfail; fi
  g++ -std=c++17 -O1 -g $extra -pthread -I$wt $out/demo.cpp -o /tmp/demo_$id.mut 2>>/tmp/demo_$id.log
  for i in 1 2 3; do timeout 120 /tmp/demo_$id.mut >/dev/null 2>&1; demo_with="$demo_with $?"; done
  git -C $wt checkout -q -- gmlc tests
fi
rm -rf $wt/_build /tmp/demo_$id.base /tmp/demo_$id.mut
python3 - <<PY
import json
json.dump(dict(seed="$id", property="$prop", applies="$res_apply", suite_with_change="$res_suite (2 runs of ctest -j8)",
               demo_exit_codes_with_change="$demo_with".split(), demo_exit_codes_without_change="$demo_without".split(),
               demo_build="g++ -std=c++17 -O1 -g $extra -pthread -I<tree> demo.cpp",
               origin="written by an independent sub-agent that saw only the property text and a scratch worktree"),
          open("$out/meta.json","w"), indent=1)
PY
echo "$id: apply=$res_apply suite=$res_suite demo_with=[$demo_with] demo_without=[$demo_without]"
