#!/usr/bin/env python3
"""Replay a counter-example file written by vcheck.py: the encoding is regenerated from /repo's current headers, compiled natively
(gcc -fsanitize=address,undefined) and driven with the recorded nondeterministic draws (context budgets, inputs, time-outs).
Exit 1 if the violation reproduces on the current tree, 0 if it does not."""
import json, os, sys, tempfile, shutil
import vcheck, ir2c


def replay(pid, path):
    r = json.load(open(path))
    work = tempfile.mkdtemp(prefix=f'vp_replay_{pid}_')
    try:
        if 'nondet_draws' not in r:
            print(f"replay file {path} records an unreachability verdict (no trace to replay): re-run the check instead"); return 2
        ll = vcheck.compile_ll(work, r['harness'], r['defines'], r.get('cflags', ()))
        text, rep = ir2c.translate(open(ll).read(), r['q'])
        cfile = os.path.join(work, r['query'] + '.c'); open(cfile, 'w').write(text)
        ok, why = vcheck.native_replay(cfile, r['nondet_draws'], work)
        print(f"replay property={pid} query={r['query']} schedule={r['schedule']}")
        print(f"  originally failed: {[f['description'] for f in r['failed']][:3]}")
        print(f"  on the current tree: {'REPRODUCED' if ok else 'not reproduced'}: {why}")
        return 1 if ok else 0
    finally:
        shutil.rmtree(work, ignore_errors=True)
