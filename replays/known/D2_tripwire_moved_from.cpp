// D2 (C19): ~TripWireTrigger stores through lineTrigger unconditionally; after the defaulted move the source holds a
// null shared_ptr, so destroying a moved-from trigger dereferences null.
// build: clang++-14 -std=c++17 -fsanitize=address,undefined -I/repo D2_tripwire_moved_from.cpp && ./a.out
#include "gmlc/concurrency/TripWire.hpp"
#include <cstdio>
#include <utility>
using namespace gmlc::concurrency;
int main()
{
    auto line = make_tripline();
    {
        TripWireTrigger t(line);
        TripWireTrigger t2(std::move(t));
    }   // t2 trips the line, then the moved-from t is destroyed
    std::puts("no crash");
    return 0;
}
