// D1 (C13): rcu_guard::unlock() / ~rcu_list() destroy and deallocate zombie_node without testing it; for the
// registration record of a read/write handle zombie_node is null.  Needs an element type with a non-trivial destructor.
// build: clang++-14 -std=c++17 -fsanitize=address,undefined -I/repo D1_rcu_null_zombie.cpp -pthread && ./a.out
#include "gmlc/libguarded/rcu_guarded.hpp"
#include "gmlc/libguarded/rcu_list.hpp"
#include <cstdio>
struct D { int* p; D(): p(new int(1)) {} D(const D&): p(new int(1)) {} ~D() { delete p; } };
int main()
{
    gmlc::libguarded::rcu_guarded<gmlc::libguarded::rcu_list<D>> l;
    { auto r = l.lock_read(); (void)(r->begin() != r->end()); }
    { auto r = l.lock_read(); (void)(r->begin() != r->end()); }   // release of the 2nd handle reaps the 1st record: ~D on null
    std::puts("no crash");
    return 0;
}
