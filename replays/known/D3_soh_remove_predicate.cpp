// D3 (C17, found by reading): SearchableObjectHolder::removeObject(predicate) erases the map entry and then uses
// obj->first (the key stored in the erased node) to look up the type tags: heap-use-after-free.
// build: clang++-14 -std=c++17 -fsanitize=address -I/repo D3_soh_remove_predicate.cpp -pthread && ./a.out
#include "gmlc/concurrency/SearchableObjectHolder.hpp"
#include <cstdio>
int main()
{
    gmlc::concurrency::SearchableObjectHolder<int, int> h;
    h.addObject("a-name-long-enough-to-live-on-the-heap", std::make_shared<int>(3), 7);
    bool r = h.removeObject([](const std::shared_ptr<int>& p) { return *p == 3; });
    std::printf("removed=%d tag-still-there=%d\n", r, h.checkObjectType("a-name-long-enough-to-live-on-the-heap", 7));
    return 0;
}
